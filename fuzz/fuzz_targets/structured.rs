//! libFuzzer target for C07 / C08 / C10: bytes -> choice tape -> generated program with layout
//! and comments -> the format round-trip, idempotence and parse oracles.
#![no_main]
use libfuzzer_sys::fuzz_target;

fuzz_target!(|data: &[u8]| {
    let tape: Vec<u16> = data.chunks(2).map(|c| u16::from_le_bytes([c[0], *c.get(1).unwrap_or(&0)])).collect();
    if let Err(f) = bv::props::fmt::fuzz_one(&tape) {
        panic!("format oracle: {} :: {}", f.sig, f.msg);
    }
});
