//! libFuzzer target for C01: raw bytes -> (program text, JSON inputs) -> the same pipeline
//! oracle as the C01 check (panic = crash; error spans must lie inside their source).
#![no_main]
use libfuzzer_sys::fuzz_target;

fuzz_target!(|data: &[u8]| {
    let Ok(s) = std::str::from_utf8(data) else { return };
    // optional inputs document after a 0x1e record separator
    let (text, inputs) = match s.split_once('\u{1e}') {
        Some((t, i)) => (t, i),
        None => (s, "{}"),
    };
    if let Err(f) = bv::props::c01::fuzz_one(text, inputs) {
        panic!("C01 oracle: {} :: {}", f.sig, f.msg);
    }
});
