#!/usr/bin/env bash
# verify_seed.sh <worktree> <A|B>   -- independent confirmation of a seeded change, in its scratch worktree:
#  (1) patch applies, workspace builds and the whole existing suite passes with it
#  (2) the demonstration fails with the change and passes without it
# Writes <worktree>/seeded/<X>/verify.log and prints a one-line verdict.
set -u
exec </dev/null
WT="$1"; X="$2"; D="$WT/seeded/$X"
export CARGO_NET_OFFLINE=true
LOG="$D/verify.log"; : > "$LOG"
cd "$WT" || exit 2
git checkout -q -- . ; git clean -q -fd -- blots-core/tests blots/tests 2>/dev/null
if ! git apply --check "$D/patch.diff" 2>>"$LOG"; then echo "$WT $X: PATCH-DOES-NOT-APPLY"; exit 1; fi
git apply "$D/patch.diff"
cargo test --workspace --no-fail-fast --offline >>"$LOG" 2>&1
suite_rc=$?
passed=$(grep -E "^test result" "$LOG" | awk '{s+=$4} END{print s}')
failed=$(grep -E "^test result" "$LOG" | awk '{s+=$6} END{print s}')
demo=$(ls "$D"/demo.* 2>/dev/null | head -1)
run_demo() {
  case "$demo" in
    *.rs)
      # integration test: blots (CLI) demos mention env!("CARGO_BIN_EXE_blots") or assert_cmd-like usage
      if grep -q "CARGO_BIN_EXE_blots\|blots::" "$demo"; then crate=blots; else crate=blots-core; fi
      mkdir -p "$WT/$crate/tests"; cp "$demo" "$WT/$crate/tests/seeded_demo.rs"
      cargo test --offline -p $crate --test seeded_demo >>"$LOG" 2>&1; rc=$?
      rm -f "$WT/$crate/tests/seeded_demo.rs"; return $rc;;
    *.sh)
      cargo build --release --offline -p blots >>"$LOG" 2>&1
      ( cd "$WT" && BLOTS="$WT/target/release/blots" bash "$demo" ) >>"$LOG" 2>&1; return $?;;
    *) echo "unknown demo type $demo" >>"$LOG"; return 99;;
  esac
}
echo "=== demo WITH change" >>"$LOG"; run_demo; with_rc=$?
git checkout -q -- .
echo "=== demo WITHOUT change" >>"$LOG"; run_demo; without_rc=$?
git checkout -q -- .
verdict="suite_rc=$suite_rc passed=$passed failed=$failed demo_with_change_rc=$with_rc demo_without_rc=$without_rc"
if [ "$suite_rc" = 0 ] && [ "$failed" = 0 ] && [ "$with_rc" != 0 ] && [ "$without_rc" = 0 ]; then echo "$WT $X: CONFIRMED $verdict"; else echo "$WT $X: NOT-CONFIRMED $verdict"; fi
