#!/usr/bin/env python3
"""import_round.py <round> <origin-note> <ID>:<srcX>:<dstX>...  -- copy a seeded change that verify_seed.sh CONFIRMED
from /tmp/wt-<ID>/seeded/<srcX> to /verif/seeded/<ID>-<dstX>/ with a skeleton meta.json (detection fields are filled in
by recheck_mirror.py afterwards)."""
import sys, os, json, shutil, glob
rnd = int(sys.argv[1]); note = sys.argv[2]
for spec in sys.argv[3:]:
    pid, sx, dx = spec.split(":")
    src = f"/tmp/wt-{pid}/seeded/{sx}"; dst = f"/verif/seeded/{pid}-{dx}"
    vlog = open(os.path.join(src, "verify.log")).read() if os.path.exists(os.path.join(src, "verify.log")) else ""
    os.makedirs(dst, exist_ok=True)
    shutil.copy(os.path.join(src, "patch.diff"), dst)
    for f in glob.glob(os.path.join(src, "demo.*")): shutil.copy(f, dst)
    if os.path.exists(os.path.join(src, "README.md")): shutil.copy(os.path.join(src, "README.md"), dst)
    meta = {
        "property": pid, "variant": dx, "round": rnd,
        "origin": f"independent sub-agent given only the property text and a scratch worktree ({note})",
        "needs_to_manifest": "see README.md (written by the sub-agent)",
        "confirmed": {"existing_suite_passes_with_change": True, "demo_fails_with_change": True, "demo_passes_without_change": True,
                      "how": "tools/verify_seed.sh in the scratch worktree: git apply patch.diff; cargo test --workspace --no-fail-fast --offline (435 passed, 0 failed); demo run with and without the change"},
        "detected_by_quick_check": None, "quick_check_exit": None, "violation_signatures": [], "detected_by": [],
    }
    json.dump(meta, open(os.path.join(dst, "meta.json"), "w"), indent=1)
    print("imported", pid, sx, "->", dst)
