#!/usr/bin/env bash
# mirror_check.sh <slot> <patch.diff|-> <ID>...
# Runs quick checks against a scratch mirror of /repo (+ the patch) and of /verif's sources under
# /tmp/mv-<slot>, so that seeded changes can be tried without touching /repo (which background
# sweeps read). "-" as patch = unchanged tree. `mirror_check.sh <slot> --remove` deletes the mirror.
set -u
SLOT="$1"; PATCH="$2"; shift 2
M=/tmp/mv-$SLOT
if [ "$PATCH" = "--remove" ]; then rm -rf "$M"; exit 0; fi
mkdir -p "$M"
# files restored by rsync keep their old modification time, which cargo would take for "not
# changed since the last build": give every restored file a fresh time stamp
rsync -a --delete --exclude target --exclude .git --out-format='%n' /repo/ "$M/repo/" | while IFS= read -r f; do [ -f "$M/repo/$f" ] && touch "$M/repo/$f"; done
rsync -a --delete --exclude .build --exclude .git --exclude seeded --exclude evidence/replay --exclude fuzz /verif/ "$M/verif/" --exclude '/.build'
sed -i "s|/repo/|$M/repo/|g" "$M/verif/harness/Cargo.toml" "$M/verif/harness/src/lib.rs" "$M/verif/harness/src/props/c01.rs"
sed -i "s|cd /repo |cd $M/repo |" "$M/verif/check"
if [ "$PATCH" != "-" ]; then
  ( cd "$M/repo" && patch -p1 --no-backup-if-mismatch -s < "$PATCH" ) || { echo "mirror_check: patch does not apply"; exit 3; }
fi
cd "$M/verif"
for ID in "$@"; do
  out=$(BV_NO_LIBFUZZER=1 ./check "$ID" 2>&1 </dev/null)
  rc=$?
  echo "== $ID exit=$rc"
  echo "$out" | grep -E "^--- violation|^VIOLATION|^bv: property|^KNOWN|check: .*failed" | sed "s|$M/verif|/verif|g" | cut -c1-300 | head -12
done
