#!/usr/bin/env bash
# fmt_diff.sh <reverse-or-forward patch for /repo> <n> : dump formatter outputs (hashes) for n generated
# programs x 12 widths with /repo's working tree and with the patch applied on top, and diff them.
# Used to show that a formatter change is output-preserving. Works in mirrors /tmp/mv-fa, /tmp/mv-fb.
set -u
PATCH="$1"; N="${2:-4000}"
/verif/tools/mirror_check.sh fa - C12 >/dev/null
/verif/tools/mirror_check.sh fb "$PATCH" C12 >/dev/null
for s in 1 2 3 4; do
  /tmp/mv-fa/verif/.build/harness/release/bv fmtdump C07 $s $N > /tmp/mv-fa/dump-$s.txt &
  /tmp/mv-fb/verif/.build/harness/release/bv fmtdump C07 $s $N > /tmp/mv-fb/dump-$s.txt &
done
wait
for s in 1 2 3 4; do
  echo "seed $s: $(wc -l < /tmp/mv-fa/dump-$s.txt) lines, differing: $(diff /tmp/mv-fa/dump-$s.txt /tmp/mv-fb/dump-$s.txt | grep -c '^<')"
done
