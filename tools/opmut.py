#!/usr/bin/env python3
"""opmut.py -- operator-level mutation sweep, used to measure the sensitivity of the quick checks.

  opmut.py gen  <N> <seed>         write /tmp/opmut/mutants.json : N single-line mutants sampled over
                                   the non-test code of the files the properties are anchored in
  opmut.py run  <slots>            process mutants.json in <slots> parallel mirrors (/tmp/mv-om<k>):
                                   build, run the repository's own 435 tests, and for the mutants
                                   that survive them run all 20 quick checks; results are appended
                                   to /tmp/opmut/results.jsonl
  opmut.py report                  summary table

Nothing here touches /repo or /verif's build output; the mirrors are scratch and are removed with
`tools/mirror_check.sh om<k> --remove`.
"""
import json, os, random, re, subprocess, sys, threading, queue, time

FILES = [
    "blots-core/src/expressions.rs", "blots-core/src/functions.rs", "blots-core/src/values.rs",
    "blots-core/src/units.rs", "blots-core/src/formatter.rs", "blots-core/src/ast_to_source.rs",
    "blots-core/src/precedence.rs", "blots-core/src/environment.rs", "blots-core/src/heap.rs",
    "blots-core/src/error.rs", "blots/src/main.rs", "blots-wasm/src/lib.rs",
]
OUT = "/tmp/opmut"
PROPS = ["C%02d" % i for i in range(1, 21)]

# (regex, replacement) pairs applied to the code part of a line (no comments, not inside strings)
OPS = [
    (r" == ", " != "), (r" != ", " == "), (r" < ", " <= "), (r" <= ", " < "), (r" > ", " >= "), (r" >= ", " > "),
    (r" && ", " || "), (r" \|\| ", " && "), (r" \+ 1\b", " + 0"), (r" - 1\b", " - 0"), (r" \+ ", " - "), (r" - ", " + "),
    (r" \* ", " / "), (r"\.min\(", ".max("), (r"\.max\(", ".min("), (r"\btrue\b", "false"), (r"\bfalse\b", "true"),
    (r"if !", "if "), (r"\.is_empty\(\)", ".len() == 1"), (r"\.skip\((\w+)\)", r".skip(\1 + 1)"), (r"\.rev\(\)", ""),
    (r"\.unwrap_or\(0\)", ".unwrap_or(1)"), (r"\bas usize\b", "as usize + 1"), (r"saturating_sub\(1\)", "saturating_sub(0)"),
    (r"\.iter\(\)\.enumerate\(\)", ".iter().enumerate().skip(1)"), (r"Ordering::Less", "Ordering::Greater"), (r"Ordering::Greater", "Ordering::Less"),
    (r"\.floor\(\)", ".ceil()"), (r"\.ceil\(\)", ".floor()"), (r"\.round\(\)", ".floor()"), (r"\.abs\(\)", ""),
]


def code_lines(path):
    """(lineno, text) of lines outside #[cfg(test)] modules, comments and the unit table"""
    lines = open(path).read().split("\n")
    out = []
    in_test = False
    for i, l in enumerate(lines):
        if l.strip().startswith("#[cfg(test)]"):
            in_test = True
        if in_test:
            continue
        s = l.strip()
        if not s or s.startswith("//") or s.startswith("#[") or s.startswith("use ") or "verif_hooks" in l or "cfg(" in l:
            continue
        out.append((i, l))
    return out


def split_code(line):
    """index ranges of the line that are code (outside string literals and // comments)"""
    spans, i, n, start, in_str = [], 0, len(line), 0, False
    while i < n:
        c = line[i]
        if in_str:
            if c == "\\":
                i += 2
                continue
            if c == '"':
                in_str = False
                start = i + 1
        else:
            if c == '"':
                spans.append((start, i))
                in_str = True
            elif c == "/" and line[i:i + 2] == "//":
                spans.append((start, i))
                return spans
        i += 1
    if not in_str:
        spans.append((start, n))
    return spans


def candidates(repo):
    cands = []
    for f in FILES:
        p = os.path.join(repo, f)
        for (i, l) in code_lines(p):
            spans = split_code(l)
            for (rx, rep) in OPS:
                for m in re.finditer(rx, l):
                    if any(a <= m.start() and m.end() <= b for a, b in spans):
                        new = l[:m.start()] + m.expand(rep) + l[m.end():]
                        if new != l:
                            cands.append({"file": f, "line": i + 1, "old": l, "new": new, "op": rx + " -> " + rep})
    return cands


def sh(cmd, cwd=None, timeout=3600):
    try:
        r = subprocess.run(cmd, shell=True, cwd=cwd, capture_output=True, text=True, timeout=timeout, stdin=subprocess.DEVNULL)
        return r.returncode, r.stdout + r.stderr
    except subprocess.TimeoutExpired:
        return 124, "timeout"


def worker(slot, q, lock):
    M = f"/tmp/mv-om{slot}"
    # create / refresh the mirror (unchanged tree) and warm its builds
    sh(f"/verif/tools/mirror_check.sh om{slot} - C12")
    while True:
        try:
            mu = q.get_nowait()
        except queue.Empty:
            return
        res = dict(mu)
        path = os.path.join(M, "repo", mu["file"])
        # restored files get a fresh time stamp, or cargo would not rebuild them (mirror_check.sh)
        sh(f"rsync -a --delete --exclude target --exclude .git --out-format='%n' /repo/ {M}/repo/ | while IFS= read -r f; do [ -f \"{M}/repo/$f\" ] && touch \"{M}/repo/$f\"; done")
        lines = open(path).read().split("\n")
        if lines[mu["line"] - 1] != mu["old"]:
            res["status"] = "stale"
        else:
            lines[mu["line"] - 1] = mu["new"]
            open(path, "w").write("\n".join(lines))
            env = "CARGO_NET_OFFLINE=true"
            rc, out = sh(f"{env} cargo build --offline -p blots-core -p blots 2>&1 | tail -5", cwd=f"{M}/repo")
            rc, out = sh(f"{env} cargo test --workspace --no-fail-fast --offline 2>&1 | grep -E '^test result|error(\\[|:)' | head -20", cwd=f"{M}/repo", timeout=1500)
            passed = sum(int(x) for x in re.findall(r"(\d+) passed", out))
            failed = sum(int(x) for x in re.findall(r"(\d+) failed", out))
            if "error" in out and passed == 0:
                res["status"] = "does-not-compile"
            elif failed > 0 or passed < 435:
                res["status"] = "killed-by-tests"
                res["tests"] = [passed, failed]
            else:
                res["status"] = "survives-tests"
                det = {}
                for pid in PROPS:
                    rc, o = sh(f"cd {M}/verif && BV_NO_LIBFUZZER=1 ./check {pid} > {M}/check.out 2>&1; grep -E '^--- violation' {M}/check.out | head -3; grep -E '^bv: property' {M}/check.out | tail -1", timeout=1500)
                    m = re.search(r"violations=(\d+)", o)
                    if m is None:
                        det[pid] = "inconclusive"
                    elif int(m.group(1)) > 0:
                        sig = re.findall(r"signature=(.*)", o)
                        det[pid] = sig[0][:100] if sig else "violation"
                res["detected_by"] = det
        with lock:
            with open(f"{OUT}/results.jsonl", "a") as f:
                f.write(json.dumps(res) + "\n")
        q.task_done()


def main():
    os.makedirs(OUT, exist_ok=True)
    cmd = sys.argv[1]
    if cmd == "gen":
        n, seed = int(sys.argv[2]), int(sys.argv[3])
        c = candidates("/repo")
        rnd = random.Random(seed)
        # stratify: at most one mutant per (file, line); sample uniformly over lines
        by_line = {}
        for x in c:
            by_line.setdefault((x["file"], x["line"]), []).append(x)
        keys = sorted(by_line)
        rnd.shuffle(keys)
        picked = [rnd.choice(by_line[k]) for k in keys[:n]]
        json.dump(picked, open(f"{OUT}/mutants.json", "w"), indent=1)
        print(len(c), "candidate mutants on", len(by_line), "lines;", len(picked), "sampled")
    elif cmd == "run":
        slots = int(sys.argv[2])
        mus = json.load(open(f"{OUT}/mutants.json"))
        done = set()
        if os.path.exists(f"{OUT}/results.jsonl"):
            for l in open(f"{OUT}/results.jsonl"):
                d = json.loads(l)
                done.add((d["file"], d["line"], d["new"]))
        q = queue.Queue()
        for m in mus:
            if (m["file"], m["line"], m["new"]) not in done:
                q.put(m)
        lock = threading.Lock()
        ts = [threading.Thread(target=worker, args=(k, q, lock)) for k in range(slots)]
        for t in ts:
            t.start()
        for t in ts:
            t.join()
    elif cmd == "report":
        rows = [json.loads(l) for l in open(f"{OUT}/results.jsonl")]
        from collections import Counter
        print(Counter(r["status"] for r in rows))
        surv = [r for r in rows if r["status"] == "survives-tests"]
        det = [r for r in surv if any(v != "inconclusive" for v in r["detected_by"].values())]
        print("survive the 435 tests:", len(surv), " flagged by at least one quick check:", len(det))
        for r in surv:
            flagged = {k: v for k, v in r["detected_by"].items() if v != "inconclusive"}
            print(("DET " if flagged else "--- "), r["file"], r["line"], "|", r["old"].strip()[:70], "=>", r["new"].strip()[:70], "|", ",".join(flagged) or "-")


main()
