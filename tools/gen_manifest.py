#!/usr/bin/env python3
"""Regenerates /verif/MANIFEST.json from the table below (run after adding a check)."""
import json, os, subprocess

HERE = os.path.dirname(os.path.dirname(os.path.abspath(__file__)))

# id -> (technique, level text, level note, DESIGN section)
P = {
 "C01": ("grammar-based + mutation + raw fuzzing with a crash/abort oracle; exhaustive built-in x boundary-pool enumeration; libFuzzer pipeline target (thorough)",
         "Exploration: every pipeline stage (parse, AST conversion with/without comments, statement evaluation, portability validation, serialisation, stringification, error rendering, formatting at several widths, the WASM formatting driver) is run on enumerated built-in calls over a boundary pool and on generated / mutated / random sources and JSON inputs; a panic, abort or an error span outside its own source is a violation, and so is a parse that needs more than a fixed budget of parser rule calls (a step count, not a clock) for a text of a few hundred bytes. Generated search is the right level because the claim is universal over inputs and a single counterexample is conclusive.",
         "Worker processes with a crash journal attribute aborts; resource-exhaustion shapes (huge range spans, huge factorials) are excluded by construction and counted; the WASM evaluate glue cannot run natively.",
         "4/C01"),
 "C02": ("differential PBT: re-run / fresh-process / shifted-heap evaluation and let-abstraction metamorphic relation on generated programs",
         "Exploration: generated well-scoped programs are evaluated twice in-process (fresh heap and environment, hence fresh HashMap seeds), in a fresh OS process, after an unrelated program in the same heap, and with a sub-expression let-abstracted; observations must be identical.",
         "Hash seeds cannot be forced in std; they are sampled through fresh RandomState instances and fresh processes. time_now and print are excluded.",
         "4/C02"),
 "C03": ("model-based stateful PBT: exhaustive short statement histories + random sessions with history invariants and a bind-once reference model",
         "Exploration over histories: all statement sequences up to a length bound over a template alphabet on names {a,b} are run against a bind-once reference model, and random longer sessions are checked against history invariants (snapshot monotonicity, reserved names, no leaked locals, insert monitor); every protected name x 15 binding forms is enumerated; sessions typed into the interactive CLI on a pseudo-terminal are compared with the same lines evaluated in-process.",
         "Hook H2 (insert log) is a monitor only. The reference model covers the template alphabet; random sessions rely on invariants.",
         "4/C03"),
 "C04": ("metamorphic PBT over a calling-context grammar; exhaustive arity table against a positional-binding model",
         "Exploration: a closed closure is evaluated directly after its definition and again inside every generated calling context (shadowing parameters / do-locals, callback positions, nested calls, after failed redefinitions); results must coincide; designed forms (re-entrant functions, closures bound to names they captured, back-to-back closures) also carry the value the call must have. All parameter lists with r+o<=4 (+rest) x argument counts 0..n+3 are enumerated against a binding model.",
         "Contexts are drawn from a fixed grammar of context kinds.",
         "4/C04"),
 "C05": ("behavioural round-trip PBT (emit -> JSON -> reload in a fresh heap -> apply) over generated closed closures, with exhaustive small parent/child shapes",
         "Exploration: functions are emitted as __blots_function source, reloaded as an input of a fresh program and applied to generated argument tuples; results (or failure) must equal the original's, also for the second generation. Designed forms put `#name` / `inputs.name` (inputs of every type and sign, names that are reserved words) in every operand position and bind functions to the names of values they captured.",
         "Equivalence is sampled on generated argument tuples, not proved.",
         "4/C05"),
 "C06": ("round-trip PBT over a recursive JSON value generator; differential against Rust's correctly rounded float parser",
         "Exploration: generated data values go value -> JSON text -> value (fresh heap) and JSON text -> inputs -> outputs -> JSON; numbers compared by bit pattern, strings by code points.",
         "Rust's str::parse::<f64> is the trusted correctly rounded reference.",
         "4/C06"),
 "C07": ("round-trip PBT: parse(format(p)) == parse(p) on ASTs over generated programs x widths, exhaustive parent/child shapes, three drivers",
         "Exploration: generated and enumerated programs are formatted through format_expr, the WASM driver (hook H1) and `blots --format`; the output must parse to the same statement sequence with identical ASTs modulo comment attachment, and closed programs must evaluate identically.",
         "The parsed input AST is taken as the program; texts the parser rejects are discarded and counted.",
         "4/C07"),
 "C08": ("idempotence PBT: format(format(p)) == format(p) over the C07 generator x widths x drivers",
         "Exploration: same program/width space as C07 with comments and 0-5 blank lines between statements; formatting the formatter's output must return it unchanged.",
         "Precondition: format(p) parses (its failure belongs to C07).",
         "4/C07"),
 "C09": ("invariant PBT: comment sequence (harness lexer) of formatter output == that of its input, comments injected at every admitted position",
         "Exploration: programs with comments injected at every position the grammar admits are formatted through the library driver, the WASM driver and the CLI; the ordered list of comment texts must be preserved.",
         "The comment lexer is harness-side and tracks string literals.",
         "4/C07"),
 "C10": ("exhaustive + random differential parsing: minimally vs fully parenthesised text under a reference precedence table; layout mutator; reserved-word-derived identifiers",
         "Exploration: all ordered pairs and triples of the 26 binary operators and all prefix/postfix/binary combinations are rendered minimally parenthesised under a table transcribed from the statement and fully parenthesised; both must parse to the tree they were rendered from. A layout mutator and an identifier generator cover the other two clauses.",
         "The reference table and the layout table are transcribed from the statement / grammar at the pinned commit.",
         "4/C10"),
 "C11": ("model-based PBT: operator x shape x element-type enumeration with random contents against an independent scalar-operator model",
         "Exploration: every broadcasting operator x {list-scalar, scalar-list, list-list, scalar-scalar} x element pools is evaluated and compared element-wise with a model scalar operator (IEEE arithmetic via Rust, whole-value comparison, concatenation, null-coalescing); dot operators must never broadcast.",
         "IEEE semantics are taken from Rust's own f64 operators (powf, %).",
         "4/C11"),
 "C12": ("exhaustive pairs/triples over a dense value pool + random near-equal pairs against a model partial order",
         "Exploration: all ordered pairs (and all triples in the thorough tier) of a ~150-value pool dense in near-equal values, plus random values, are compared through the six dot operators and four u* built-ins; results must match the model equality / lexicographic partial order and satisfy reflexivity, symmetry, trichotomy, transitivity.",
         "The model order transcribes the statement; NaN excluded as the statement says.",
         "4/C12"),
 "C13": ("differential PBT between operator forms and built-in forms (via/map, where/filter, into/application, every/some, reduce vs fold) with recording callbacks",
         "Exploration: generated (list, function) pairs - lambdas of every arity shape, closures, self- and mutually recursive named functions, built-ins of every arity class - are evaluated through both equivalent forms in one environment; value or failure status must coincide, and recording callbacks expose the argument protocol.",
         "Failure is compared by status, not by message.",
         "4/C13"),
 "C14": ("law-based PBT: one executable law per built-in over generated lists / strings / records / indices",
         "Exploration: permutation / order / stability / partition / inverse / length laws of the list, string and record built-ins, indexing and spreading are checked on generated arguments by evaluating the built-ins through the evaluator and checking the laws on the serialised results.",
         "Laws transcribe the statement; fractional indices are only required not to crash.",
         "4/C14"),
 "C15": ("reference-model PBT: aggregates vs Rust reference computations with rounding bounds, permutation and calling-convention metamorphic relations",
         "Exploration: generated number lists (length 1..50, duplicates, +-inf, extreme magnitudes) x p are evaluated through the three calling conventions and compared with reference computations on the same doubles.",
         "Rounding bounds n*eps*sum|x| for sums; exactness for order statistics.",
         "4/C15"),
 "C16": ("round-trip PBT on bit patterns through every textual path; literal grammar with exact decimal / big-integer reference values",
         "Exploration: finite doubles over bit patterns and boundaries go through to_string/to_number, JSON output/input, function-source emission and the formatter; spellings from a literal grammar (underscores, shifted points, exponents, midpoints, hex/binary) are compared with the correctly rounded reference double computed with exact decimal arithmetic.",
         "Exact decimal arithmetic is harness-side (model::dec); Rust's exact float formatting is the trusted base.",
         "4/C16"),
 "C17": ("exhaustive enumeration of the unit table (identifiers, ordered pairs, same-category triples) x magnitudes with rounding-bounded algebraic laws",
         "Exploration, exhaustive over the table: every identifier, ordered pair and same-category triple of get_all_units() x a magnitude set; identity, there-and-back, composition, prefix ratios, category separation, identifier resolution and error reporting.",
         "Rounding tolerance is stated on the magnitudes of the intermediates; the prefix table is harness-side.",
         "4/C17"),
 "C18": ("grammar-based program generation run in the real release CLI under an 8 MiB stack with an exit-status / message oracle; enumerated linear recursions with a call-count (work) oracle in-process",
         "Exploration on the shipped binary: recursion shapes from a grammar (self / mutual / callbacks / do-blocks / nested-operator bodies, per-call nesting 1..32) must end with the call-depth error (exit 1), never a signal; bounded variants a few hundred calls deep must complete with the expected value; single-line shapes are also typed into the interactive CLI on a pseudo-terminal. Completion is additionally decided without a clock: linear recursions returning each type of value through each value-preserving form around the recursive call must make a number of function calls linear in their depth (counted from the evaluator's own call statistics at depths 4..16).",
         "The real binary decides crashes and depth errors; RLIMIT_STACK 8 MiB models the default main-thread stack. The work oracle runs in-process and reports growth above six times the linear extrapolation.",
         "4/C18"),
 "C19": ("model-based PBT of the CLI: generated scripts x input sets x invocation modes against a reference model of merging, outputs and exit status",
         "Exploration on the real binary: generated scripts (0..6 outputs, optional failing statement anywhere) x input sets (stdin and/or several -i, objects and non-objects, overlapping keys) x modes (file, inline, -e, -o) are run and compared with a reference model. Function inputs the language refuses may be reported as an input error but must never be skipped silently (earlier keys showing through, value_N numbering shifting).",
         "The model computes values only for the generated script fragment (literals, #k, inputs.k, simple arithmetic).",
         "4/C19"),
 "C20": ("PBT over double bit patterns with an independent numeral grammar and exact decimal error bound",
         "Exploration: doubles over bit patterns, notation thresholds and powers of ten +- ulps, carry values and subnormals are rendered by format_display_number (and the format built-in), parsed by the harness's numeral grammar and compared with the exact decimal value of the double: error below one unit of the 15th significant digit, integers below 2^53 exact.",
         "Exact decimal expansion via Rust's float formatting.",
         "4/C20"),
}

IMPLEMENTED = sorted(x.strip() for x in open(os.path.join(HERE, "tools", "implemented.txt")).read().split() if x.strip())

def hook_commits():
    try:
        out = subprocess.check_output(["git", "-C", "/repo", "log", "--format=%H %s"], text=True)
        return [l.split()[0] for l in out.splitlines() if "verif hook" in l.lower()]
    except Exception:
        return []

checks = []
for pid in IMPLEMENTED:
    tech, text, note, ref = P[pid]
    checks.append({
        "property_id": pid,
        "quick_cmd": f"./check {pid} --tier quick",
        "thorough_cmd": f"./check {pid} --tier thorough",
        "evidence_file": f"/verif/evidence/{pid}.json",
        "replay_cmd_template": f"./check {pid} --replay {{path}}",
        "engine": "bv",
        "level_claimed": {"category": "exploration", "text": text, "design_ref": f"DESIGN.md section {ref}"},
        "level_note": note,
        "technique": tech,
    })

manifest = {
    "version": 1,
    "setup_cmd": "cd /verif/harness && CARGO_NET_OFFLINE=true CARGO_TARGET_DIR=/verif/.build/harness cargo build --release --offline && cd /repo && CARGO_NET_OFFLINE=true CARGO_TARGET_DIR=/verif/.build/repo cargo build --release --offline -p blots",
    "hooks": {
        "guard": "cargo feature verif-hooks (blots-core, blots-wasm; default off)",
        "enable": "the harness crate depends on blots-core with features=[\"verif-hooks\"] and #[path]-includes blots-wasm/src/lib.rs with its own feature of the same name; the release CLI used by CLI-level checks is built with the guard off",
        "baseline_off_cmd": "cd /repo && cargo test --workspace --no-fail-fast --offline",
        "source_commits": hook_commits(),
        "add_only": True,
    },
    "engines": [{
        "name": "bv",
        "path": "/verif/harness",
        "serves_properties": IMPLEMENTED,
        "kind_free_text": "Rust binary: proptest TestRunner driven from a supervisor/worker process pool (crash journal, watchdog, shrinking, known-finding classification), plus exhaustive enumerations; ./check rebuilds it against /repo's working tree on every run",
    }],
    "checks": checks,
    "not_applicable": [
        {"property_id": pid, "reason": "check not built yet in this session (design in DESIGN.md section 4); not claimed"}
        for pid in sorted(P) if pid not in IMPLEMENTED
    ],
    "notes": "Known findings and fixed defects: /verif/known_findings.json. Seeded breakages used for sensitivity: /verif/seeded/. VERIF_SEED selects the PRNG seed (default 1).",
}
json.dump(manifest, open(os.path.join(HERE, "MANIFEST.json"), "w"), indent=1)
print("MANIFEST.json:", len(checks), "checks,", len(manifest["not_applicable"]), "not applicable")
