#!/usr/bin/env python3
"""recheck_seeds.py [NAME...]  -- (re)run the quick check of each seeded change in /verif/seeded and update its meta.json.
Optional extra property ids per seed can be given in meta.json["also_check"]."""
import json, os, subprocess, sys, re
root = "/verif/seeded"
names = sys.argv[1:] or sorted(os.listdir(root))
for name in names:
    d = os.path.join(root, name)
    patch = os.path.join(d, "patch.diff")
    if not os.path.exists(patch):
        continue
    meta_p = os.path.join(d, "meta.json")
    meta = json.load(open(meta_p)) if os.path.exists(meta_p) else {"property": name.split("-")[0]}
    props = [meta["property"]] + meta.get("also_check", [])
    out = subprocess.run(["/verif/tools/try_seed.sh", patch] + props, capture_output=True, text=True).stdout
    open(os.path.join(d, "check_output.txt"), "w").write(out)
    results = {}
    cur = None
    for line in out.splitlines():
        m = re.match(r"== (\w+) exit=(\d+)", line)
        if m:
            cur = m.group(1); results[cur] = {"exit": int(m.group(2)), "signatures": []}
        elif line.startswith("--- violation") and cur:
            results[cur]["signatures"].append(line[len("--- violation: "):].strip()[:200])
    main = results.get(meta["property"], {})
    meta["detected_by_quick_check"] = main.get("exit") == 1
    meta["quick_check_exit"] = main.get("exit")
    meta["violation_signatures"] = main.get("signatures", [])[:6]
    meta["detected_by"] = [p for p, r in results.items() if r["exit"] == 1]
    meta["ran"] = f"tools/try_seed.sh seeded/{name}/patch.diff " + " ".join(props)
    if os.path.exists(os.path.join(d, "patch.orig.diff")):
        meta["patch_note"] = "patch.diff is the sub-agent's change ported by hand onto the tree after later fix commits (original: patch.orig.diff)"
    json.dump(meta, open(meta_p, "w"), indent=1)
    print(name, "DETECTED" if meta["detected_by_quick_check"] else "not detected", meta["detected_by"], [s[:90] for s in meta["violation_signatures"][:2]])
