#!/usr/bin/env python3
"""gen_seed_table.py -- rewrite the table of DESIGN.md section 11 (between the SEED-TABLE markers)
from seeded/*/meta.json and the first heading line of each README."""
import json, os, re
root = "/verif/seeded"
rows = []
for name in sorted(os.listdir(root)):
    d = os.path.join(root, name)
    mp = os.path.join(d, "meta.json")
    if not os.path.exists(mp):
        continue
    m = json.load(open(mp))
    title = ""
    rp = os.path.join(d, "README.md")
    if os.path.exists(rp):
        for line in open(rp):
            if line.startswith("#"):
                title = line.lstrip("# ").strip()
                break
    title = re.sub(r"\s+", " ", title).replace("|", "/")[:110]
    if m.get("neutralised") or m.get("still_breaks_property_on_current_tree") is False:
        caught = "n/a (no longer a violation, see note)"
    else:
        caught = "yes" if m.get("detected_by_quick_check") else "NO"
    sigs = "; ".join(re.sub(r"^check=\S+ signature=", "", s)[:80] for s in m.get("violation_signatures", [])[:2]).replace("|", "/")
    rows.append(f"| {name} | {m.get('round', 1)} | {title} | {caught} | {sigs} |")
table = "| Seed | Round | Change (heading of its README) | Caught by the quick check | Signatures |\n|---|---|---|---|---|\n" + "\n".join(rows) + "\n"
p = "/verif/DESIGN.md"
s = open(p).read()
a, b = s.index("<!-- SEED-TABLE-BEGIN -->"), s.index("<!-- SEED-TABLE-END -->")
s = s[:a] + "<!-- SEED-TABLE-BEGIN -->\n" + table + s[b:]
open(p, "w").write(s)
print(len(rows), "rows;", sum("| yes |" in r for r in rows), "caught")
