#!/usr/bin/env bash
# try_seed.sh <patch.diff> <ID> [<ID>...]  -- apply a seeded change to /repo, run the quick checks, undo it.
set -u
P="$(realpath "$1")"; shift
cd /repo || exit 2
if [ -n "$(git status --porcelain --untracked-files=no)" ]; then echo "try_seed: /repo has uncommitted tracked changes; refusing"; exit 2; fi
if ! git apply --check "$P"; then echo "try_seed: patch does not apply"; exit 2; fi
git apply "$P"
for id in "$@"; do
  out=$(cd /verif && ./check "$id" --tier quick 2>&1); rc=$?
  echo "== $id exit=$rc"
  echo "$out" | grep -E "^(VIOLATION|KNOWN-FINDING|bv: property)|^--- violation" | head -14
done
git -C /repo checkout -- .
