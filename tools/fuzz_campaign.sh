#!/usr/bin/env bash
# fuzz_campaign.sh <property ID> <target: pipeline|structured> <runs per job> <jobs>
# Coverage-guided campaign (libFuzzer through cargo-fuzz, nightly). The semantic oracle is
# inside the target. A crash artifact is converted into a replay file for `./check <ID> --replay`
# and reported as a VIOLATION; the campaign statistics are merged into evidence/<ID>.json.
set -u
ID="$1"; TARGET="$2"; RUNS="$3"; JOBS="${4:-8}"
VERIF_DIR="$(cd "$(dirname "$0")/.." && pwd)"
SEED="${VERIF_SEED:-1}"; [ "$SEED" = "0" ] && SEED=1
export CARGO_NET_OFFLINE=true
TD="$VERIF_DIR/.build/fuzz"
WORK="$VERIF_DIR/.build/fuzzrun/$ID-$TARGET"
rm -rf "$WORK"; mkdir -p "$WORK/corpus" "$WORK/artifacts"
LOG="$WORK/build.log"
( cd "$VERIF_DIR/harness" && CARGO_TARGET_DIR="$TD" cargo +nightly fuzz build -s none --fuzz-dir "$VERIF_DIR/fuzz" --target-dir "$TD" "$TARGET" ) >"$LOG" 2>&1 || { echo "fuzz_campaign: build failed (see $LOG)" >&2; tail -20 "$LOG" >&2; exit 2; }
BIN="$TD/x86_64-unknown-linux-gnu/release/$TARGET"
# seed corpus: repository examples and README blocks (pipeline), or a few random tapes (structured)
if [ "$TARGET" = "pipeline" ]; then
  n=0
  for f in $(find /repo/examples /repo/website -name '*.blots' 2>/dev/null | sort | head -200); do
    [ "$(wc -c <"$f")" -lt 4000 ] && cp "$f" "$WORK/corpus/seed-$n" && n=$((n+1))
  done
  for f in "$VERIF_DIR"/corpus/C01/*.json; do
    python3 - "$f" "$WORK/corpus" <<'PY'
import json,sys,os,hashlib
d=json.load(open(sys.argv[1]))
p=d.get('input',{}).get('Program')
if p:
    data=(p['text']+'\x1e'+p['inputs']).encode()
    open(os.path.join(sys.argv[2],'reg-'+hashlib.md5(data).hexdigest()[:8]),'wb').write(data)
PY
  done
else
  python3 - "$WORK/corpus" "$SEED" <<'PY'
import sys,os,hashlib
d,seed=sys.argv[1],int(sys.argv[2])
x=seed*2654435761 & 0xffffffff
for i in range(64):
    b=bytearray()
    for _ in range(64+8*i):
        x=(x*1103515245+12345)&0x7fffffff
        b.append((x>>16)&0xff)
    open(os.path.join(d,'tape-%02d'%i),'wb').write(bytes(b))
PY
fi
DICT="$WORK/dict.txt"
python3 - > "$DICT" <<'PY'
toks=['(',')','[',']','{','}',',',':','=','=>','...','#','.','+','-','*','/','%','^','==','!=','<','<=','>','>=','.==','.<','&&','||','??','!',' and ',' or ',' not ',' via ',' into ',' where ','if ',' then ',' else ','do {','return ','output ','//','true','false','null','inf','inputs','constants','sum','map','range','sort_by','format','median','percentile','chunk','slice','__blots_function','\\x1e']
for t in toks:
    print('"'+t.replace('\\','\\\\').replace('"','\\"').replace('\\\\x1e','\\x1e')+'"')
PY
cd "$WORK"
# Wall-clock guard for the whole campaign: libFuzzer handles a unit time-out inside a signal
# handler, which now and then dead-locks the job (seen once: a job waiting on a futex for ever
# after its 60 s unit time-out). Such a campaign is cut off and counted as inconclusive.
WALL="${FUZZ_WALL_LIMIT:-$(( 900 + RUNS / 100 ))}"
timeout -k 10 "$WALL" "$BIN" corpus -artifact_prefix="$WORK/artifacts/" -dict="$DICT" -seed="$SEED" -runs="$RUNS" -max_len=4096 -len_control=0 -timeout=60 -rss_limit_mb=4096 -jobs="$JOBS" -workers="$JOBS" -print_final_stats=1 >"$WORK/fuzz.log" 2>&1
rc=$?
if [ "$rc" = 124 ] || [ "$rc" = 137 ]; then echo "fuzz_campaign: campaign cut off after ${WALL}s (a job did not come back; inconclusive for that job)" >&2; fi
execs=$(cat "$WORK"/fuzz-*.log 2>/dev/null | grep -E "stat::number_of_executed_units" | awk '{s+=$2} END{print s+0}')
cov=$(cat "$WORK"/fuzz-*.log 2>/dev/null | grep -oE "cov: [0-9]+" | awk '{if($2>m)m=$2} END{print m+0}')
crashes=$(ls "$WORK/artifacts" 2>/dev/null | grep -c "^crash-" || true)
slow=$(ls "$WORK/artifacts" 2>/dev/null | grep -cE "^(timeout|oom|slow-unit)-" || true)
REPLAY=""
if [ "$crashes" -gt 0 ]; then
  art="$WORK/artifacts/$(ls "$WORK/artifacts" | grep '^crash-' | head -1)"
  mkdir -p "$VERIF_DIR/evidence/replay"
  REPLAY="$VERIF_DIR/evidence/replay/$ID-libfuzzer-$TARGET.json"
  python3 - "$art" "$REPLAY" "$ID" "$TARGET" <<'PY'
import json,sys
data=open(sys.argv[1],'rb').read()
out,pid,target=sys.argv[2:5]
if target=='pipeline':
    s=data.decode('utf-8','replace')
    text,_,inputs=s.partition('\x1e')
    body={"property":pid,"check":"pipeline","signature":"libfuzzer-crash","input":{"Program":{"text":text,"inputs":inputs or "{}","cli":True}}}
else:
    tape=[data[i]|((data[i+1] if i+1<len(data) else 0)<<8) for i in range(0,len(data),2)]
    body={"property":pid,"check":"libfuzzer-structured","signature":"libfuzzer-crash","input":{"tape":tape},"note":"re-run with: "+sys.argv[1]}
json.dump(body,open(out,'w'))
PY
fi
python3 - "$VERIF_DIR/evidence/$ID.json" "$TARGET" "$execs" "$cov" "$crashes" "$slow" "$JOBS" "$RUNS" <<'PY'
import json,sys
p,target,execs,cov,crashes,slow,jobs,runs=sys.argv[1:9]
try:
    e=json.load(open(p))
except Exception:
    sys.exit(0)
e['coverage']['libfuzzer']={"target":target,"executions":int(execs),"edge_coverage":int(cov),"crash_artifacts":int(crashes),"timeout_or_oom_artifacts_inconclusive":int(slow),"jobs":int(jobs),"runs_per_job":int(runs)}
e['coverage']['evaluations']=e['coverage'].get('evaluations',0)+int(execs)
if int(crashes)>0:
    e['violations']=e.get('violations',0)+1
json.dump(e,open(p,'w'),indent=1)
PY
echo "libfuzzer: target=$TARGET executions=$execs edge_coverage=$cov crashes=$crashes slow_or_oom=$slow"
if [ "$crashes" -gt 0 ]; then
  echo "--- libFuzzer crash (first lines):"; grep -m3 -E "panicked|oracle" "$WORK"/fuzz-*.log | cut -c1-400
  echo "VIOLATION property=$ID replay=$REPLAY"
  exit 1
fi
exit 0
