#!/usr/bin/env bash
# verify_all.sh ID...  : per worktree sequentially (A then B), worktrees in parallel
exec </dev/null
for p in "$@"; do
  ( for x in A B; do [ -d /tmp/${WT_PREFIX:-wt}-$p/seeded/$x ] && /verif/tools/verify_seed.sh /tmp/${WT_PREFIX:-wt}-$p $x; done ) &
done
wait
