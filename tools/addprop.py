#!/usr/bin/env python3
import re,sys
p='/verif/harness/src/props/mod.rs'
s=open(p).read()
for pid in sys.argv[1:]:
    m=pid.lower()
    if f"pub mod {m};" in s: continue
    mods=sorted(set(re.findall(r"pub mod (c\d+);",s))|{m})
    s=re.sub(r"(pub mod c\d+;\n)+", "".join(f"pub mod {x};\n" for x in mods), s, count=1)
    ids=sorted(x.upper() for x in mods)
    s=re.sub(r"pub const ALL: &\[&str\] = &\[.*?\];", "pub const ALL: &[&str] = &["+", ".join(f'"{i}"' for i in ids)+"];", s)
    runs="".join(f'        "{i}" => {i.lower()}::run(ctx),\n' for i in ids)
    s=re.sub(r'(        "C\d+" => c\d+::run\(ctx\),\n)+', runs, s, count=1)
    metas="".join(f'        "{i}" => ({i.lower()}::RULE, {i.lower()}::ASSUMPTIONS),\n' for i in ids)
    s=re.sub(r'(        "C\d+" => \(c\d+::RULE, c\d+::ASSUMPTIONS\),\n)+', metas, s, count=1)
open(p,'w').write(s)
