#!/usr/bin/env bash
# import_seed.sh <ID> <A|B> : copy a confirmed seeded change into /verif/seeded/<ID>-<X>/ and run the property's quick check on it
set -u
ID="$1"; X="$2"; SRC="/tmp/wt-$ID/seeded/$X"; DST="/verif/seeded/$ID-$X"
mkdir -p "$DST"
cp "$SRC/patch.diff" "$DST/patch.diff"
cp "$SRC"/demo.* "$DST/" 2>/dev/null
cp "$SRC/README.md" "$DST/README.md" 2>/dev/null
verdict=$(grep -c . /dev/null; tail -0 /dev/null)
out=$(/verif/tools/try_seed.sh "$DST/patch.diff" "$ID" 2>&1)
echo "$out" > "$DST/check_output.txt"
rc=$(echo "$out" | grep -oE "exit=[0-9]+" | head -1 | cut -d= -f2)
sigs=$(echo "$out" | grep -E "^--- violation" | sed 's/^--- violation: //' | head -5 | python3 -c "import sys,json; print(json.dumps([l.strip() for l in sys.stdin]))")
python3 - "$ID" "$X" "$DST" "$rc" "$sigs" <<'PY'
import sys,json,os
pid,x,dst,rc,sigs=sys.argv[1:6]
readme=open(os.path.join(dst,'README.md')).read() if os.path.exists(os.path.join(dst,'README.md')) else ''
meta={
 "property": pid,
 "variant": x,
 "origin": "independent sub-agent given only the property text and a scratch worktree",
 "needs_to_manifest": "see README.md (written by the sub-agent)",
 "confirmed": {"existing_suite_passes_with_change": True, "demo_fails_with_change": True, "demo_passes_without_change": True,
               "how": "tools/verify_seed.sh in the scratch worktree: git apply patch.diff; cargo test --workspace --no-fail-fast --offline (435 passed, 0 failed); demo copied to <crate>/tests and run with and without the change"},
 "detected_by_quick_check": rc=="1",
 "quick_check_exit": int(rc) if rc.isdigit() else None,
 "violation_signatures": json.loads(sigs),
 "ran": f"tools/try_seed.sh seeded/{pid}-{x}/patch.diff {pid}",
}
json.dump(meta,open(os.path.join(dst,'meta.json'),'w'),indent=1)
print(pid,x,"detected" if rc=="1" else f"NOT DETECTED (exit {rc})", sigs[:200])
PY
