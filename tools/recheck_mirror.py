#!/usr/bin/env python3
"""recheck_mirror.py <slots> NAME... -- (RECHECK_NO_WRITE=1: report only, e.g. with another VERIF_SEED) like recheck_seeds.py, but in scratch mirrors (/tmp/mv-r<k>) so that
/repo is not touched and several seeds are tried in parallel."""
import json, os, subprocess, sys, re, threading, queue
root = "/verif/seeded"
slots = int(sys.argv[1]); names = sys.argv[2:]
q = queue.Queue()
for n in names: q.put(n)
lock = threading.Lock()
def work(k):
    while True:
        try: name = q.get_nowait()
        except queue.Empty: return
        d = os.path.join(root, name); meta_p = os.path.join(d, "meta.json")
        meta = json.load(open(meta_p))
        props = [meta["property"]] + meta.get("also_check", [])
        out = subprocess.run(["/verif/tools/mirror_check.sh", f"r{k}", os.path.join(d, "patch.diff")] + props, capture_output=True, text=True, stdin=subprocess.DEVNULL).stdout
        nowrite = os.environ.get("RECHECK_NO_WRITE") == "1"
        if not nowrite:
            open(os.path.join(d, "check_output.txt"), "w").write(out)
        results, cur = {}, None
        for line in out.splitlines():
            m = re.match(r"== (\w+) exit=(\d+)", line)
            if m: cur = m.group(1); results[cur] = {"exit": int(m.group(2)), "signatures": []}
            elif line.startswith("--- violation") and cur: results[cur]["signatures"].append(line[len("--- violation: "):].strip()[:200])
        main = results.get(meta["property"], {})
        meta["detected_by_quick_check"] = main.get("exit") == 1
        meta["quick_check_exit"] = main.get("exit")
        meta["violation_signatures"] = main.get("signatures", [])[:6]
        meta["detected_by"] = [p for p, r in results.items() if r["exit"] == 1]
        meta["ran"] = f"tools/mirror_check.sh <slot> seeded/{name}/patch.diff " + " ".join(props)
        if os.path.exists(os.path.join(d, "patch.orig.diff")):
            meta["patch_note"] = "patch.diff is the sub-agent's change ported by hand onto the tree after later fix commits (original: patch.orig.diff)"
        if not nowrite:
            json.dump(meta, open(meta_p, "w"), indent=1)
        with lock:
            print(name, "DETECTED" if meta["detected_by_quick_check"] else ("patch does not apply" if "does not apply" in out else "not detected"), meta["detected_by"], [s[:90] for s in meta["violation_signatures"][:2]], flush=True)
ts = [threading.Thread(target=work, args=(k,)) for k in range(slots)]
[t.start() for t in ts]; [t.join() for t in ts]
