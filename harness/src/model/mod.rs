//! Harness-side reference models, written independently of blots-core.

pub mod dec;
pub mod json;
pub mod mv;
pub mod prec;

pub use mv::{F, MV};
