//! Harness-side JSON reader / writer, independent of serde_json: numbers are converted with
//! Rust's correctly rounded `str::parse::<f64>`; the writer can vary number spellings.

use crate::model::{F, MV};

pub struct Parser<'a> {
    s: &'a [u8],
    i: usize,
}

pub fn parse(text: &str) -> Result<MV, String> {
    let mut p = Parser { s: text.as_bytes(), i: 0 };
    p.ws();
    let v = p.value()?;
    p.ws();
    if p.i != p.s.len() {
        return Err(format!("trailing data at byte {}", p.i));
    }
    Ok(v)
}

impl<'a> Parser<'a> {
    fn ws(&mut self) {
        while self.i < self.s.len() && matches!(self.s[self.i], b' ' | b'\n' | b'\r' | b'\t') {
            self.i += 1;
        }
    }
    fn eat(&mut self, lit: &str) -> bool {
        if self.s[self.i..].starts_with(lit.as_bytes()) {
            self.i += lit.len();
            true
        } else {
            false
        }
    }
    fn value(&mut self) -> Result<MV, String> {
        self.ws();
        if self.i >= self.s.len() {
            return Err("unexpected end".into());
        }
        if self.eat("null") {
            return Ok(MV::Null);
        }
        if self.eat("true") {
            return Ok(MV::Bool(true));
        }
        if self.eat("false") {
            return Ok(MV::Bool(false));
        }
        let c0 = self.s[self.i];
        match c0 {
            b'"' => self.string().map(MV::Str),
            b'[' => {
                self.i += 1;
                let mut v = Vec::new();
                self.ws();
                if self.i < self.s.len() && self.s[self.i] == b']' {
                    self.i += 1;
                    return Ok(MV::List(v));
                }
                loop {
                    v.push(self.value()?);
                    self.ws();
                    match self.s.get(self.i) {
                        Some(b',') => self.i += 1,
                        Some(b']') => {
                            self.i += 1;
                            return Ok(MV::List(v));
                        }
                        _ => return Err(format!("expected , or ] at {}", self.i)),
                    }
                }
            }
            b'{' => {
                self.i += 1;
                let mut v: Vec<(String, MV)> = Vec::new();
                self.ws();
                if self.i < self.s.len() && self.s[self.i] == b'}' {
                    self.i += 1;
                    return Ok(MV::Rec(v));
                }
                loop {
                    self.ws();
                    let k = self.string()?;
                    self.ws();
                    if self.s.get(self.i) != Some(&b':') {
                        return Err(format!("expected : at {}", self.i));
                    }
                    self.i += 1;
                    let val = self.value()?;
                    if let Some(slot) = v.iter_mut().find(|(k2, _)| *k2 == k) {
                        slot.1 = val;
                    } else {
                        v.push((k, val));
                    }
                    self.ws();
                    match self.s.get(self.i) {
                        Some(b',') => self.i += 1,
                        Some(b'}') => {
                            self.i += 1;
                            return Ok(MV::Rec(v));
                        }
                        _ => return Err(format!("expected , or }} at {}", self.i)),
                    }
                }
            }
            b'-' | b'0'..=b'9' => {
                let st = self.i;
                while self.i < self.s.len() && matches!(self.s[self.i], b'-' | b'+' | b'.' | b'e' | b'E' | b'0'..=b'9') {
                    self.i += 1;
                }
                let tok = std::str::from_utf8(&self.s[st..self.i]).unwrap();
                tok.parse::<f64>().map(|x| MV::Num(F(x))).map_err(|e| format!("bad number {}: {}", tok, e))
            }
            c => Err(format!("unexpected byte {:?} at {}", c as char, self.i)),
        }
    }
    fn hex4(&mut self) -> Result<u32, String> {
        let h = self.s.get(self.i..self.i + 4).ok_or("short \\u escape")?;
        let t = std::str::from_utf8(h).map_err(|_| "bad \\u escape")?;
        self.i += 4;
        u32::from_str_radix(t, 16).map_err(|_| "bad \\u escape".to_string())
    }
    fn string(&mut self) -> Result<String, String> {
        if self.s.get(self.i) != Some(&b'"') {
            return Err(format!("expected string at {}", self.i));
        }
        self.i += 1;
        let mut out = String::new();
        loop {
            let st = self.i;
            while self.i < self.s.len() && self.s[self.i] != b'"' && self.s[self.i] != b'\\' {
                self.i += 1;
            }
            out.push_str(std::str::from_utf8(&self.s[st..self.i]).map_err(|_| "invalid utf-8")?);
            match self.s.get(self.i) {
                Some(b'"') => {
                    self.i += 1;
                    return Ok(out);
                }
                Some(b'\\') => {
                    self.i += 1;
                    let c = *self.s.get(self.i).ok_or("dangling escape")?;
                    self.i += 1;
                    match c {
                        b'"' => out.push('"'),
                        b'\\' => out.push('\\'),
                        b'/' => out.push('/'),
                        b'b' => out.push('\u{8}'),
                        b'f' => out.push('\u{c}'),
                        b'n' => out.push('\n'),
                        b'r' => out.push('\r'),
                        b't' => out.push('\t'),
                        b'u' => {
                            let hi = self.hex4()?;
                            let cp = if (0xD800..0xDC00).contains(&hi) {
                                if !self.eat("\\u") {
                                    return Err("lone surrogate".into());
                                }
                                let lo = self.hex4()?;
                                0x10000 + ((hi - 0xD800) << 10) + (lo.wrapping_sub(0xDC00) & 0x3ff)
                            } else {
                                hi
                            };
                            out.push(char::from_u32(cp).ok_or("bad code point")?);
                        }
                        _ => return Err("bad escape".into()),
                    }
                }
                _ => return Err("unterminated string".into()),
            }
        }
    }
}

pub fn write_string(s: &str, escape_non_ascii: bool) -> String {
    let mut o = String::from("\"");
    for c in s.chars() {
        match c {
            '"' => o.push_str("\\\""),
            '\\' => o.push_str("\\\\"),
            '\n' => o.push_str("\\n"),
            '\r' => o.push_str("\\r"),
            '\t' => o.push_str("\\t"),
            c if (c as u32) < 0x20 => o.push_str(&format!("\\u{:04x}", c as u32)),
            c if escape_non_ascii && (c as u32) > 0x7e => {
                let mut b = [0u16; 2];
                for u in c.encode_utf16(&mut b) {
                    o.push_str(&format!("\\u{:04X}", u));
                }
            }
            c => o.push(c),
        }
    }
    o.push('"');
    o
}

/// number spelling styles: 0 shortest, 1 exponent form, 2 exact long expansion, 3 upper-case E with +
pub fn write_number(x: f64, style: u8) -> String {
    assert!(x.is_finite());
    if x == 0.0 {
        let z = ["0", "0.0", "0e0", "0E+0"][(style % 4) as usize];
        return if x.is_sign_negative() { format!("-{}", z) } else { z.to_string() };
    }
    match style % 4 {
        0 => {
            if x == 0.0 && x.is_sign_negative() {
                "-0.0".into()
            } else if x.fract() == 0.0 && x.abs() < 1e15 {
                format!("{:.0}", x)
            } else {
                format!("{}", x)
            }
        }
        1 => format!("{:e}", x),
        2 => {
            let d = crate::model::dec::Dec::from_f64(x);
            let t = d.to_plain();
            if t.len() > 400 { format!("{:e}", x) } else { t }
        }
        _ => {
            let t = format!("{:E}", x);
            match t.split_once('E') {
                Some((m, e)) if !e.starts_with('-') => format!("{}E+{}", m, e),
                _ => t,
            }
        }
    }
}

pub fn write(v: &MV, style: u8) -> String {
    match v {
        MV::Null => "null".into(),
        MV::Bool(b) => b.to_string(),
        MV::Num(F(x)) => write_number(*x, style),
        MV::Str(s) => write_string(s, style % 2 == 1),
        MV::List(l) => format!("[{}]", l.iter().map(|x| write(x, style)).collect::<Vec<_>>().join(if style % 2 == 0 { "," } else { " , " })),
        MV::Rec(r) => format!(
            "{{{}}}",
            r.iter().map(|(k, x)| format!("{}:{}", write_string(k, style % 2 == 1), write(x, style))).collect::<Vec<_>>().join(",")
        ),
        MV::Fn(s) => format!("{{\"__blots_function\":{}}}", write_string(s, false)),
    }
}
