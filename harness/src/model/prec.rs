//! Reference operator table, transcribed from the statement of C10 (not from precedence.rs):
//! loosest to tightest: and/or/&&/||/via/into/where; comparisons (plain and dot-prefixed);
//! + -; * / %; ^ (right-assoc); ??; prefix - ! not; postfix !; call, index, field access.

use serde::{Deserialize, Serialize};

#[derive(Clone, Copy, Debug, PartialEq, Eq, Hash, Serialize, Deserialize)]
pub enum Op {
    Add,
    Sub,
    Mul,
    Div,
    Mod,
    Pow,
    Eq,
    Ne,
    Lt,
    Le,
    Gt,
    Ge,
    DEq,
    DNe,
    DLt,
    DLe,
    DGt,
    DGe,
    AndSym,
    AndWord,
    OrSym,
    OrWord,
    Via,
    Into,
    Where,
    Coalesce,
}

pub const ALL_OPS: [Op; 26] = [
    Op::Add,
    Op::Sub,
    Op::Mul,
    Op::Div,
    Op::Mod,
    Op::Pow,
    Op::Eq,
    Op::Ne,
    Op::Lt,
    Op::Le,
    Op::Gt,
    Op::Ge,
    Op::DEq,
    Op::DNe,
    Op::DLt,
    Op::DLe,
    Op::DGt,
    Op::DGe,
    Op::AndSym,
    Op::AndWord,
    Op::OrSym,
    Op::OrWord,
    Op::Via,
    Op::Into,
    Op::Where,
    Op::Coalesce,
];

/// the 17 broadcasting operators of C11
pub const BROADCAST_OPS: [Op; 17] = [
    Op::Add,
    Op::Sub,
    Op::Mul,
    Op::Div,
    Op::Mod,
    Op::Pow,
    Op::Eq,
    Op::Ne,
    Op::Lt,
    Op::Le,
    Op::Gt,
    Op::Ge,
    Op::AndSym,
    Op::AndWord,
    Op::OrSym,
    Op::OrWord,
    Op::Coalesce,
];

pub const DOT_OPS: [Op; 6] = [Op::DEq, Op::DNe, Op::DLt, Op::DLe, Op::DGt, Op::DGe];

impl Op {
    pub fn text(self) -> &'static str {
        match self {
            Op::Add => "+",
            Op::Sub => "-",
            Op::Mul => "*",
            Op::Div => "/",
            Op::Mod => "%",
            Op::Pow => "^",
            Op::Eq => "==",
            Op::Ne => "!=",
            Op::Lt => "<",
            Op::Le => "<=",
            Op::Gt => ">",
            Op::Ge => ">=",
            Op::DEq => ".==",
            Op::DNe => ".!=",
            Op::DLt => ".<",
            Op::DLe => ".<=",
            Op::DGt => ".>",
            Op::DGe => ".>=",
            Op::AndSym => "&&",
            Op::AndWord => "and",
            Op::OrSym => "||",
            Op::OrWord => "or",
            Op::Via => "via",
            Op::Into => "into",
            Op::Where => "where",
            Op::Coalesce => "??",
        }
    }

    /// word operators need white space around them
    pub fn is_word(self) -> bool {
        matches!(self, Op::AndWord | Op::OrWord | Op::Via | Op::Into | Op::Where)
    }

    /// binding level, higher binds tighter
    pub fn level(self) -> u8 {
        match self {
            Op::AndSym | Op::AndWord | Op::OrSym | Op::OrWord | Op::Via | Op::Into | Op::Where => 1,
            Op::Eq
            | Op::Ne
            | Op::Lt
            | Op::Le
            | Op::Gt
            | Op::Ge
            | Op::DEq
            | Op::DNe
            | Op::DLt
            | Op::DLe
            | Op::DGt
            | Op::DGe => 2,
            Op::Add | Op::Sub => 3,
            Op::Mul | Op::Div | Op::Mod => 4,
            Op::Pow => 5,
            Op::Coalesce => 6,
        }
    }

    pub fn right_assoc(self) -> bool {
        matches!(self, Op::Pow)
    }

    pub fn to_core(self) -> blots_core::ast::BinaryOp {
        use blots_core::ast::BinaryOp as B;
        match self {
            Op::Add => B::Add,
            Op::Sub => B::Subtract,
            Op::Mul => B::Multiply,
            Op::Div => B::Divide,
            Op::Mod => B::Modulo,
            Op::Pow => B::Power,
            Op::Eq => B::Equal,
            Op::Ne => B::NotEqual,
            Op::Lt => B::Less,
            Op::Le => B::LessEq,
            Op::Gt => B::Greater,
            Op::Ge => B::GreaterEq,
            Op::DEq => B::DotEqual,
            Op::DNe => B::DotNotEqual,
            Op::DLt => B::DotLess,
            Op::DLe => B::DotLessEq,
            Op::DGt => B::DotGreater,
            Op::DGe => B::DotGreaterEq,
            Op::AndSym => B::And,
            Op::AndWord => B::NaturalAnd,
            Op::OrSym => B::Or,
            Op::OrWord => B::NaturalOr,
            Op::Via => B::Via,
            Op::Into => B::Into,
            Op::Where => B::Where,
            Op::Coalesce => B::Coalesce,
        }
    }

    pub fn from_core(b: blots_core::ast::BinaryOp) -> Op {
        *ALL_OPS.iter().find(|o| o.to_core() == b).expect("all ops covered")
    }
}

pub const LEVEL_PREFIX: u8 = 7;
pub const LEVEL_POSTFIX_FACT: u8 = 8;
pub const LEVEL_POSTFIX_ACCESS: u8 = 9;
pub const LEVEL_ATOM: u8 = 10;
