//! Model values (`MV`) and their model semantics: equality, ordering, rendering to Blots
//! source / JSON / heap values.

use blots_core::heap::Heap;
use blots_core::values::{SerializableValue, Value};
use indexmap::IndexMap;
use serde::{Deserialize, Serialize};
use std::cmp::Ordering;

/// f64 with bitwise identity and a lossless JSON form (hex bit pattern).
#[derive(Clone, Copy)]
pub struct F(pub f64);

impl PartialEq for F {
    fn eq(&self, o: &F) -> bool {
        self.0.to_bits() == o.0.to_bits()
    }
}
impl Eq for F {}
impl std::hash::Hash for F {
    fn hash<H: std::hash::Hasher>(&self, h: &mut H) {
        self.0.to_bits().hash(h)
    }
}
impl std::fmt::Debug for F {
    fn fmt(&self, f: &mut std::fmt::Formatter<'_>) -> std::fmt::Result {
        write!(f, "{:?}", self.0)
    }
}
impl Serialize for F {
    fn serialize<S: serde::Serializer>(&self, s: S) -> Result<S::Ok, S::Error> {
        s.serialize_str(&format!("{:016x}={:e}", self.0.to_bits(), self.0))
    }
}
impl<'de> Deserialize<'de> for F {
    fn deserialize<D: serde::Deserializer<'de>>(d: D) -> Result<F, D::Error> {
        let s = String::deserialize(d)?;
        let hex = s.split('=').next().unwrap_or("");
        u64::from_str_radix(hex, 16)
            .map(|b| F(f64::from_bits(b)))
            .map_err(serde::de::Error::custom)
    }
}

#[derive(Clone, Debug, PartialEq, Eq, Hash, Serialize, Deserialize)]
pub enum MV {
    Num(F),
    Str(String),
    Bool(bool),
    Null,
    List(Vec<MV>),
    Rec(Vec<(String, MV)>),
    /// observation only: a function value, identified by its emitted source text
    Fn(String),
}

pub fn num(x: f64) -> MV {
    MV::Num(F(x))
}
pub fn s(x: &str) -> MV {
    MV::Str(x.to_string())
}

impl MV {
    pub fn type_name(&self) -> &'static str {
        match self {
            MV::Num(_) => "number",
            MV::Str(_) => "string",
            MV::Bool(_) => "boolean",
            MV::Null => "null",
            MV::List(_) => "list",
            MV::Rec(_) => "record",
            MV::Fn(_) => "function",
        }
    }

    pub fn depth(&self) -> usize {
        match self {
            MV::List(l) => 1 + l.iter().map(|x| x.depth()).max().unwrap_or(0),
            MV::Rec(r) => 1 + r.iter().map(|(_, x)| x.depth()).max().unwrap_or(0),
            _ => 0,
        }
    }

    pub fn has_nan(&self) -> bool {
        match self {
            MV::Num(F(x)) => x.is_nan(),
            MV::List(l) => l.iter().any(|x| x.has_nan()),
            MV::Rec(r) => r.iter().any(|(_, x)| x.has_nan()),
            _ => false,
        }
    }

    pub fn all_finite(&self) -> bool {
        match self {
            MV::Num(F(x)) => x.is_finite(),
            MV::List(l) => l.iter().all(|x| x.all_finite()),
            MV::Rec(r) => r.iter().all(|(_, x)| x.all_finite()),
            _ => true,
        }
    }

    pub fn to_sv(&self) -> SerializableValue {
        match self {
            MV::Num(F(x)) => SerializableValue::Number(*x),
            MV::Str(s) => SerializableValue::String(s.clone()),
            MV::Bool(b) => SerializableValue::Bool(*b),
            MV::Null => SerializableValue::Null,
            MV::List(l) => SerializableValue::List(l.iter().map(|x| x.to_sv()).collect()),
            MV::Rec(r) => {
                let mut m = IndexMap::new();
                for (k, v) in r {
                    m.insert(k.clone(), v.to_sv());
                }
                SerializableValue::Record(m)
            }
            MV::Fn(_) => panic!("MV::Fn cannot be materialised"),
        }
    }

    pub fn from_sv(sv: &SerializableValue) -> MV {
        match sv {
            SerializableValue::Number(n) => MV::Num(F(*n)),
            SerializableValue::Bool(b) => MV::Bool(*b),
            SerializableValue::Null => MV::Null,
            SerializableValue::String(s) => MV::Str(s.clone()),
            SerializableValue::List(l) => MV::List(l.iter().map(MV::from_sv).collect()),
            SerializableValue::Record(r) => {
                MV::Rec(r.iter().map(|(k, v)| (k.clone(), MV::from_sv(v))).collect())
            }
            SerializableValue::Lambda(l) => {
                let args: Vec<String> = l.args.iter().map(|a| a.to_string()).collect();
                MV::Fn(format!("({}) => {}", args.join(", "), l.body))
            }
            SerializableValue::BuiltIn(n) => MV::Fn(n.clone()),
        }
    }

    pub fn to_value(&self, heap: &mut Heap) -> Value {
        self.to_sv().to_value(heap).expect("data values always materialise")
    }

    pub fn from_value(v: &Value, heap: &Heap) -> Result<MV, String> {
        SerializableValue::from_value(v, heap)
            .map(|sv| MV::from_sv(&sv))
            .map_err(|e| e.to_string())
    }

    /// serde_json form (finite numbers only; NaN/inf become null like serde_json does).
    pub fn to_json(&self) -> serde_json::Value {
        match self {
            MV::Num(F(x)) => serde_json::Number::from_f64(*x)
                .map(serde_json::Value::Number)
                .unwrap_or(serde_json::Value::Null),
            MV::Str(s) => serde_json::Value::String(s.clone()),
            MV::Bool(b) => serde_json::Value::Bool(*b),
            MV::Null => serde_json::Value::Null,
            MV::List(l) => serde_json::Value::Array(l.iter().map(|x| x.to_json()).collect()),
            MV::Rec(r) => {
                let mut m = serde_json::Map::new();
                for (k, v) in r {
                    m.insert(k.clone(), v.to_json());
                }
                serde_json::Value::Object(m)
            }
            MV::Fn(s) => serde_json::json!({"__blots_function": s}),
        }
    }

    /// Blots source text denoting exactly this value (for use as a list item, argument,
    /// right-hand side; `atom` = true wraps anything that is not a single term in parentheses).
    pub fn to_source(&self, atom: bool) -> String {
        match self {
            MV::Num(F(x)) => num_source(*x, atom),
            MV::Str(s) => str_source(s, atom),
            MV::Bool(b) => b.to_string(),
            MV::Null => "null".to_string(),
            MV::List(l) => {
                let items: Vec<String> = l.iter().map(|x| x.to_source(false)).collect();
                format!("[{}]", items.join(", "))
            }
            MV::Rec(r) => {
                let items: Vec<String> = r
                    .iter()
                    .map(|(k, v)| format!("{}: {}", key_source(k), v.to_source(false)))
                    .collect();
                format!("{{{}}}", items.join(", "))
            }
            MV::Fn(s) => format!("({})", s),
        }
    }

    // ---- model semantics ---------------------------------------------------------------

    /// deep equality ignoring record key order; numbers by IEEE == (so 0 == -0, NaN != NaN)
    pub fn model_eq(&self, o: &MV) -> bool {
        match (self, o) {
            (MV::Num(F(a)), MV::Num(F(b))) => a == b,
            (MV::Str(a), MV::Str(b)) => a == b,
            (MV::Bool(a), MV::Bool(b)) => a == b,
            (MV::Null, MV::Null) => true,
            (MV::List(a), MV::List(b)) => {
                a.len() == b.len() && a.iter().zip(b).all(|(x, y)| x.model_eq(y))
            }
            (MV::Rec(a), MV::Rec(b)) => {
                a.len() == b.len()
                    && a.iter().all(|(k, v)| {
                        b.iter().find(|(k2, _)| k2 == k).map(|(_, v2)| v.model_eq(v2)).unwrap_or(false)
                    })
            }
            _ => false,
        }
    }

    /// the partial order of the language: numbers, booleans (false < true), strings by code
    /// point, lists lexicographically with a proper prefix first; everything else unordered
    pub fn model_cmp(&self, o: &MV) -> Option<Ordering> {
        match (self, o) {
            (MV::Num(F(a)), MV::Num(F(b))) => a.partial_cmp(b),
            (MV::Bool(a), MV::Bool(b)) => Some(a.cmp(b)),
            (MV::Str(a), MV::Str(b)) => Some(a.chars().cmp(b.chars())),
            (MV::List(a), MV::List(b)) => {
                for (x, y) in a.iter().zip(b) {
                    match x.model_cmp(y) {
                        Some(Ordering::Equal) => continue,
                        other => return other,
                    }
                }
                Some(a.len().cmp(&b.len()))
            }
            _ => None,
        }
    }

    /// strict structural identity: numbers by bit pattern, record keys as sets
    pub fn same_bits(&self, o: &MV) -> bool {
        match (self, o) {
            (MV::Num(a), MV::Num(b)) => a == b,
            (MV::List(a), MV::List(b)) => {
                a.len() == b.len() && a.iter().zip(b).all(|(x, y)| x.same_bits(y))
            }
            (MV::Rec(a), MV::Rec(b)) => {
                a.len() == b.len()
                    && a.iter().all(|(k, v)| {
                        b.iter().find(|(k2, _)| k2 == k).map(|(_, v2)| v.same_bits(v2)).unwrap_or(false)
                    })
            }
            (a, b) => a == b,
        }
    }

    /// like same_bits but any NaN equals any NaN
    pub fn same_nanclass(&self, o: &MV) -> bool {
        match (self, o) {
            (MV::Num(F(a)), MV::Num(F(b))) => (a.is_nan() && b.is_nan()) || a.to_bits() == b.to_bits(),
            (MV::List(a), MV::List(b)) => {
                a.len() == b.len() && a.iter().zip(b).all(|(x, y)| x.same_nanclass(y))
            }
            (MV::Rec(a), MV::Rec(b)) => {
                a.len() == b.len()
                    && a.iter().all(|(k, v)| {
                        b.iter()
                            .find(|(k2, _)| k2 == k)
                            .map(|(_, v2)| v.same_nanclass(v2))
                            .unwrap_or(false)
                    })
            }
            (a, b) => a == b,
        }
    }

    /// same as same_nanclass but record key ORDER must match too (for list/record laws)
    pub fn identical(&self, o: &MV) -> bool {
        match (self, o) {
            (MV::Num(F(a)), MV::Num(F(b))) => (a.is_nan() && b.is_nan()) || a.to_bits() == b.to_bits(),
            (MV::List(a), MV::List(b)) => {
                a.len() == b.len() && a.iter().zip(b).all(|(x, y)| x.identical(y))
            }
            (MV::Rec(a), MV::Rec(b)) => {
                a.len() == b.len()
                    && a.iter().zip(b).all(|((k, v), (k2, v2))| k == k2 && v.identical(v2))
            }
            (a, b) => a == b,
        }
    }
}

pub fn is_ident(s: &str) -> bool {
    let mut cs = s.chars();
    match cs.next() {
        Some(c) if c.is_ascii_alphabetic() || c == '_' => {}
        _ => return false,
    }
    cs.all(|c| c.is_ascii_alphanumeric() || c == '_')
}

pub const RESERVED: &[&str] = &[
    "if", "then", "else", "true", "false", "null", "and", "or", "not", "do", "return", "output",
];

/// record key as source: bare identifier when plain and not reserved / built-in-looking,
/// otherwise a quoted or computed key
pub fn key_source(k: &str) -> String {
    if is_ident(k) && !RESERVED.contains(&k) && !k.starts_with("true") && !k.starts_with("false") && !k.starts_with("null") {
        k.to_string()
    } else if !k.contains('"') {
        format!("\"{}\"", k)
    } else if !k.contains('\'') {
        format!("'{}'", k)
    } else {
        format!("[{}]", str_source(k, false))
    }
}

/// string literal source; the grammar has no escapes, so the delimiter is chosen to be absent
/// from the text and strings with both quote kinds are concatenations
pub fn str_source(s: &str, atom: bool) -> String {
    if !s.contains('"') {
        format!("\"{}\"", s)
    } else if !s.contains('\'') {
        format!("'{}'", s)
    } else {
        // split into maximal runs without '"' / with only '"'
        let mut parts: Vec<String> = Vec::new();
        let mut cur = String::new();
        let mut cur_has_dq = false;
        for c in s.chars() {
            let is_dq = c == '"';
            if !cur.is_empty() && is_dq != cur_has_dq {
                parts.push(if cur_has_dq { format!("'{}'", cur) } else { format!("\"{}\"", cur) });
                cur.clear();
            }
            cur_has_dq = is_dq;
            cur.push(c);
        }
        if !cur.is_empty() {
            parts.push(if cur_has_dq { format!("'{}'", cur) } else { format!("\"{}\"", cur) });
        }
        let joined = parts.join(" + ");
        if atom { format!("({})", joined) } else { joined }
    }
}

pub fn num_source(x: f64, atom: bool) -> String {
    let body = if x.is_nan() {
        return "(0/0)".to_string();
    } else if x.is_infinite() {
        if x > 0.0 { "inf".to_string() } else { "-inf".to_string() }
    } else if x == 0.0 && x.is_sign_negative() {
        "-0".to_string()
    } else {
        format!("{}", x)
    };
    if atom && body.starts_with('-') {
        format!("({})", body)
    } else {
        body
    }
}
