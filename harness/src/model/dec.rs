//! Minimal exact decimal arithmetic (no bignum crate is available offline).
//! value = (-1)^neg * int(digits) * 10^exp, digits most-significant first, no leading zeros.
//! Trusted base: Rust's float formatting with explicit precision is exact.

use std::cmp::Ordering;

#[derive(Clone, Debug, PartialEq, Eq)]
pub struct Dec {
    pub neg: bool,
    pub digits: Vec<u8>,
    pub exp: i64,
}

impl Dec {
    pub fn zero() -> Dec {
        Dec {
            neg: false,
            digits: vec![],
            exp: 0,
        }
    }

    pub fn is_zero(&self) -> bool {
        self.digits.is_empty()
    }

    fn normalise(mut self) -> Dec {
        let lead = self.digits.iter().take_while(|d| **d == 0).count();
        self.digits.drain(..lead);
        while let Some(&0) = self.digits.last() {
            self.digits.pop();
            self.exp += 1;
        }
        if self.digits.is_empty() {
            self.exp = 0;
            self.neg = false;
        }
        self
    }

    /// exact value of a finite double
    pub fn from_f64(x: f64) -> Dec {
        assert!(x.is_finite());
        let s = format!("{:.1100e}", x);
        Dec::parse(&s).expect("rust float formatting")
    }

    /// 10^k
    pub fn pow10(k: i64) -> Dec {
        Dec {
            neg: false,
            digits: vec![1],
            exp: k,
        }
    }

    /// parse `[+-]digits[.digits][(e|E)[+-]digits]` (also `.digits`); no separators
    pub fn parse(s: &str) -> Option<Dec> {
        let b = s.as_bytes();
        let mut i = 0;
        let mut neg = false;
        if i < b.len() && (b[i] == b'+' || b[i] == b'-') {
            neg = b[i] == b'-';
            i += 1;
        }
        let mut digits = Vec::new();
        let mut frac_len: i64 = 0;
        let mut seen_digit = false;
        while i < b.len() && b[i].is_ascii_digit() {
            digits.push(b[i] - b'0');
            seen_digit = true;
            i += 1;
        }
        if i < b.len() && b[i] == b'.' {
            i += 1;
            while i < b.len() && b[i].is_ascii_digit() {
                digits.push(b[i] - b'0');
                frac_len += 1;
                seen_digit = true;
                i += 1;
            }
        }
        if !seen_digit {
            return None;
        }
        let mut exp: i64 = 0;
        if i < b.len() && (b[i] == b'e' || b[i] == b'E') {
            i += 1;
            let mut eneg = false;
            if i < b.len() && (b[i] == b'+' || b[i] == b'-') {
                eneg = b[i] == b'-';
                i += 1;
            }
            let start = i;
            while i < b.len() && b[i].is_ascii_digit() {
                exp = exp.checked_mul(10)?.checked_add((b[i] - b'0') as i64)?;
                i += 1;
            }
            if i == start {
                return None;
            }
            if eneg {
                exp = -exp;
            }
        }
        if i != b.len() {
            return None;
        }
        Some(
            Dec {
                neg,
                digits,
                exp: exp - frac_len,
            }
            .normalise(),
        )
    }

    pub fn abs(&self) -> Dec {
        let mut d = self.clone();
        d.neg = false;
        d
    }

    pub fn negate(&self) -> Dec {
        let mut d = self.clone();
        if !d.is_zero() {
            d.neg = !d.neg;
        }
        d
    }

    /// exponent of the leading significant digit: value in [10^E, 10^(E+1))
    pub fn leading_exp(&self) -> Option<i64> {
        if self.is_zero() {
            None
        } else {
            Some(self.exp + self.digits.len() as i64 - 1)
        }
    }

    fn aligned(a: &Dec, b: &Dec) -> (Vec<u8>, Vec<u8>, i64) {
        let e = a.exp.min(b.exp);
        let mut da = a.digits.clone();
        da.extend(std::iter::repeat_n(0u8, (a.exp - e) as usize));
        let mut db = b.digits.clone();
        db.extend(std::iter::repeat_n(0u8, (b.exp - e) as usize));
        let n = da.len().max(db.len());
        let mut pa = vec![0u8; n - da.len()];
        pa.extend(da);
        let mut pb = vec![0u8; n - db.len()];
        pb.extend(db);
        (pa, pb, e)
    }

    pub fn cmp_abs(&self, o: &Dec) -> Ordering {
        match (self.leading_exp(), o.leading_exp()) {
            (None, None) => return Ordering::Equal,
            (None, Some(_)) => return Ordering::Less,
            (Some(_), None) => return Ordering::Greater,
            (Some(a), Some(b)) if a != b => return a.cmp(&b),
            _ => {}
        }
        let (a, b, _) = Dec::aligned(self, o);
        a.cmp(&b)
    }

    pub fn cmp(&self, o: &Dec) -> Ordering {
        match (self.neg, o.neg) {
            (false, true) => Ordering::Greater,
            (true, false) => Ordering::Less,
            (false, false) => self.cmp_abs(o),
            (true, true) => o.cmp_abs(self),
        }
    }

    fn add_abs(a: &Dec, b: &Dec) -> Dec {
        let (x, y, e) = Dec::aligned(a, b);
        let mut out = vec![0u8; x.len() + 1];
        let mut carry = 0u8;
        for i in (0..x.len()).rev() {
            let s = x[i] + y[i] + carry;
            out[i + 1] = s % 10;
            carry = s / 10;
        }
        out[0] = carry;
        Dec {
            neg: false,
            digits: out,
            exp: e,
        }
        .normalise()
    }

    /// |a| - |b| assuming |a| >= |b|
    fn sub_abs(a: &Dec, b: &Dec) -> Dec {
        let (x, y, e) = Dec::aligned(a, b);
        let mut out = vec![0u8; x.len()];
        let mut borrow = 0i8;
        for i in (0..x.len()).rev() {
            let mut d = x[i] as i8 - y[i] as i8 - borrow;
            if d < 0 {
                d += 10;
                borrow = 1;
            } else {
                borrow = 0;
            }
            out[i] = d as u8;
        }
        Dec {
            neg: false,
            digits: out,
            exp: e,
        }
        .normalise()
    }

    pub fn add(&self, o: &Dec) -> Dec {
        if self.neg == o.neg {
            let mut r = Dec::add_abs(self, o);
            r.neg = self.neg && !r.is_zero();
            r
        } else {
            match self.cmp_abs(o) {
                Ordering::Equal => Dec::zero(),
                Ordering::Greater => {
                    let mut r = Dec::sub_abs(self, o);
                    r.neg = self.neg;
                    r
                }
                Ordering::Less => {
                    let mut r = Dec::sub_abs(o, self);
                    r.neg = o.neg;
                    r
                }
            }
        }
    }

    pub fn sub(&self, o: &Dec) -> Dec {
        self.add(&o.negate())
    }

    /// multiply by a small non-negative integer
    pub fn mul_small(&self, m: u32) -> Dec {
        let mut out = vec![0u8; self.digits.len() + 12];
        let mut carry: u64 = 0;
        let n = out.len();
        for i in 0..self.digits.len() {
            let d = self.digits[self.digits.len() - 1 - i] as u64 * m as u64 + carry;
            out[n - 1 - i] = (d % 10) as u8;
            carry = d / 10;
        }
        let mut i = self.digits.len();
        while carry > 0 {
            out[n - 1 - i] = (carry % 10) as u8;
            carry /= 10;
            i += 1;
        }
        Dec {
            neg: self.neg,
            digits: out,
            exp: self.exp,
        }
        .normalise()
    }

    pub fn half(&self) -> Dec {
        let mut r = self.mul_small(5);
        r.exp -= 1;
        r.normalise()
    }

    /// render as plain digits with optional fraction and exponent (for literal generation)
    pub fn to_plain(&self) -> String {
        if self.is_zero() {
            return "0".to_string();
        }
        let ds: String = self.digits.iter().map(|d| (b'0' + d) as char).collect();
        let body = if self.exp >= 0 {
            format!("{}{}", ds, "0".repeat(self.exp as usize))
        } else {
            let frac = (-self.exp) as usize;
            if frac >= ds.len() {
                format!("0.{}{}", "0".repeat(frac - ds.len()), ds)
            } else {
                format!("{}.{}", &ds[..ds.len() - frac], &ds[ds.len() - frac..])
            }
        };
        if self.neg { format!("-{}", body) } else { body }
    }

    pub fn digit_string(&self) -> String {
        self.digits.iter().map(|d| (b'0' + d) as char).collect()
    }
}

/// the double nearest to the exact decimal `d` under round-half-even, found by searching
/// around Rust's own (correctly rounded) parse of a long rendering and verifying with exact
/// arithmetic: the returned value is *checked*, not trusted.
pub fn nearest_double_checked(d: &Dec, candidate: f64) -> bool {
    if !candidate.is_finite() {
        return false;
    }
    let c = Dec::from_f64(candidate);
    let err = d.sub(&c).abs();
    // neighbours
    let up = next_up(candidate);
    let down = next_down(candidate);
    for (nb, _) in [(up, 1), (down, -1)] {
        if !nb.is_finite() {
            continue;
        }
        let e2 = d.sub(&Dec::from_f64(nb)).abs();
        match e2.cmp_abs(&err) {
            Ordering::Less => return false,
            Ordering::Equal => {
                // tie: candidate must be the even one
                if candidate.to_bits() & 1 == 1 {
                    return false;
                }
            }
            Ordering::Greater => {}
        }
    }
    true
}

pub fn next_up(x: f64) -> f64 {
    if x.is_nan() || x == f64::INFINITY {
        return x;
    }
    if x == 0.0 {
        return f64::from_bits(1);
    }
    let b = x.to_bits();
    if x > 0.0 { f64::from_bits(b + 1) } else { f64::from_bits(b - 1) }
}

pub fn next_down(x: f64) -> f64 {
    -next_up(-x)
}

#[cfg(test)]
mod tests {
    use super::*;
    #[test]
    fn basics() {
        let a = Dec::parse("1.25").unwrap();
        let b = Dec::parse("0.75").unwrap();
        assert_eq!(a.add(&b), Dec::parse("2").unwrap());
        assert_eq!(a.sub(&b), Dec::parse("0.5").unwrap());
        assert_eq!(b.sub(&a), Dec::parse("-0.5").unwrap());
        assert_eq!(a.half(), Dec::parse("0.625").unwrap());
        assert_eq!(Dec::from_f64(0.1).to_plain().len() > 20, true);
        assert_eq!(Dec::from_f64(5e-324).leading_exp(), Some(-324));
        assert_eq!(Dec::from_f64(1e15).to_plain(), "1000000000000000");
        assert!(nearest_double_checked(&Dec::parse("0.1").unwrap(), 0.1));
        assert!(!nearest_double_checked(&Dec::parse("0.1").unwrap(), next_up(0.1)));
    }
}
