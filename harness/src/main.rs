//! bv — blots-lang verification harness (property-based testing / fuzzing).
//!
//! bv run <ID> [--tier quick|thorough] [--seed N] [--shards N]
//! bv replay <ID> <FILE>
//! bv worker <ID> ...           (internal)

use bv::engine::{self, Ctx, Mode, Tier};
use bv::props;

/// Global allocator wrapper: when the system allocator fails (RLIMIT_AS reached) a marker file
/// is written before the process aborts, so the supervisor counts the case as a resource
/// limit (inconclusive) instead of a crash.
struct MarkingAllocator;

static ALLOC_MARKER: std::sync::OnceLock<std::ffi::CString> = std::sync::OnceLock::new();

unsafe impl std::alloc::GlobalAlloc for MarkingAllocator {
    unsafe fn alloc(&self, layout: std::alloc::Layout) -> *mut u8 {
        let p = unsafe { std::alloc::System.alloc(layout) };
        if p.is_null() {
            mark_alloc_failure();
        }
        p
    }
    unsafe fn dealloc(&self, ptr: *mut u8, layout: std::alloc::Layout) {
        unsafe { std::alloc::System.dealloc(ptr, layout) }
    }
    unsafe fn realloc(&self, ptr: *mut u8, layout: std::alloc::Layout, new_size: usize) -> *mut u8 {
        let p = unsafe { std::alloc::System.realloc(ptr, layout, new_size) };
        if p.is_null() {
            mark_alloc_failure();
        }
        p
    }
}

fn mark_alloc_failure() {
    if let Some(c) = ALLOC_MARKER.get() {
        // raw syscalls only: no allocation here
        unsafe {
            let fd = libc::open(c.as_ptr(), libc::O_CREAT | libc::O_WRONLY | libc::O_TRUNC, 0o644);
            if fd >= 0 {
                let msg = b"ALLOC_FAIL";
                libc::write(fd, msg.as_ptr() as *const libc::c_void, msg.len());
                libc::close(fd);
            }
        }
    }
}

#[global_allocator]
static GLOBAL: MarkingAllocator = MarkingAllocator;

fn arg_value(args: &[String], name: &str) -> Option<String> {
    args.iter().position(|a| a == name).and_then(|i| args.get(i + 1).cloned())
}

fn verif_dir() -> String {
    std::env::var("BV_VERIF_DIR").unwrap_or_else(|_| "/verif".to_string())
}

fn main() {
    let args: Vec<String> = std::env::args().collect();
    if args.len() < 3 {
        eprintln!("usage: bv run|replay|worker <ID> ...");
        std::process::exit(2);
    }
    let cmd = args[1].as_str();
    let prop = args[2].clone();
    if !props::exists(&prop) {
        eprintln!("bv: unknown property {}", prop);
        std::process::exit(2);
    }
    let tier = match arg_value(&args, "--tier").as_deref() {
        Some("thorough") => Tier::Thorough,
        Some("quick") | None => Tier::Quick,
        Some(o) => {
            eprintln!("bv: unknown tier {}", o);
            std::process::exit(2);
        }
    };
    let seed: u64 = arg_value(&args, "--seed")
        .or_else(|| std::env::var("VERIF_SEED").ok())
        .and_then(|s| s.trim().parse::<i128>().ok())
        .map(|v| v as u64)
        .unwrap_or(1);
    match cmd {
        "run" => {
            let nshards: usize = arg_value(&args, "--shards")
                .and_then(|s| s.parse().ok())
                .unwrap_or_else(|| props::default_shards(&prop));
            let (rule, assumptions) = props::meta(&prop);
            let code = engine::supervisor::run(engine::supervisor::RunSpec {
                prop,
                tier,
                seed,
                nshards,
                rule,
                assumptions,
                verif_dir: verif_dir(),
            });
            std::process::exit(code);
        }
        "replay" => {
            engine::install_panic_hook();
            let file = args.get(3).cloned().unwrap_or_default();
            std::process::exit(engine::supervisor::replay_file(&prop, &file, &verif_dir()));
        }
        "worker" => worker(&args, &prop, tier, seed),
        "fmtdump" => {
            engine::install_panic_hook();
            let seed: u64 = args.get(3).and_then(|s| s.parse().ok()).unwrap_or(1);
            let n: u32 = args.get(4).and_then(|s| s.parse().ok()).unwrap_or(1000);
            std::thread::Builder::new().stack_size(1 << 30).spawn(move || props::fmt::dump(seed, n)).unwrap().join().unwrap();
        }
        "eval" => {
            engine::install_panic_hook();
            props::c02::eval_main();
        }
        _ => {
            eprintln!("bv: unknown command {}", cmd);
            std::process::exit(2);
        }
    }
}

fn set_limits() {
    unsafe {
        // address-space limit per worker (1 GiB of it is the evaluation thread's reserved
        // stack): an allocation failure writes a marker and aborts the worker, which the
        // supervisor counts as a resource limit; it keeps a runaway case from taking the machine down.
        let lim = libc::rlimit {
            rlim_cur: 5 << 30,
            rlim_max: 5 << 30,
        };
        libc::setrlimit(libc::RLIMIT_AS, &lim);
        let core = libc::rlimit {
            rlim_cur: 0,
            rlim_max: 0,
        };
        libc::setrlimit(libc::RLIMIT_CORE, &core);
    }
}

fn worker(args: &[String], prop: &str, tier: Tier, seed: u64) {
    let shard: usize = arg_value(args, "--shard").and_then(|s| s.parse().ok()).unwrap_or(0);
    let nshards: usize = arg_value(args, "--nshards").and_then(|s| s.parse().ok()).unwrap_or(1);
    let attempt: u32 = arg_value(args, "--attempt").and_then(|s| s.parse().ok()).unwrap_or(0);
    let budget: f64 = arg_value(args, "--budget").and_then(|s| s.parse().ok()).unwrap_or(1.0);
    let journal = arg_value(args, "--journal");
    let out = arg_value(args, "--out");
    set_limits();
    if let Some(j) = &journal {
        // the CString conversion in the failure path allocates nothing new after this point
        if let Ok(c) = std::ffi::CString::new(format!("{}.marker", j)) {
            let _ = ALLOC_MARKER.set(c);
        }
    }
    engine::install_panic_hook();
    engine::start_watchdog(journal.clone());
    let known = engine::load_known(&format!("{}/known_findings.json", verif_dir()));

    // run on a thread with the stack size the shipped CLI gives its interpreter thread
    // (native-stack exhaustion by recursion is C18's subject, decided on the real binary)
    let prop = prop.to_string();
    let handle = std::thread::Builder::new()
        .stack_size(1 << 30)
        .spawn(move || {
            let mut ctx = Ctx::new(
                &prop,
                tier,
                seed,
                shard,
                nshards,
                attempt,
                budget,
                Mode::Search,
                &known,
                journal.as_deref(),
                out.as_deref(),
            );
            if shard == 0 && attempt == 0 {
                regressions(&mut ctx, &known);
            }
            props::run(&prop, &mut ctx);
            ctx.checkpoint(true);
        })
        .expect("spawn");
    match handle.join() {
        Ok(()) => std::process::exit(0),
        Err(_) => std::process::exit(101),
    }
}

/// Shard 0 first replays the stored input of every listed finding and every regression
/// input under corpus/<ID>/.
fn regressions(ctx: &mut Ctx, known: &engine::KnownFile) {
    let mut items: Vec<(String, String, serde_json::Value)> = Vec::new();
    for k in known.known.iter().filter(|k| k.property == ctx.prop) {
        if let (Some(c), Some(i)) = (&k.check, &k.input) {
            items.push((format!("known:{}", k.signature), c.clone(), i.clone()));
        }
    }
    let dir = format!("{}/corpus/{}", verif_dir(), ctx.prop);
    if let Ok(rd) = std::fs::read_dir(&dir) {
        let mut paths: Vec<_> = rd.filter_map(|e| e.ok()).map(|e| e.path()).collect();
        paths.sort();
        for p in paths {
            if p.extension().and_then(|e| e.to_str()) != Some("json") {
                continue;
            }
            if let Some(v) = std::fs::read_to_string(&p)
                .ok()
                .and_then(|s| serde_json::from_str::<serde_json::Value>(&s).ok())
            {
                let c = v.get("check").and_then(|c| c.as_str()).unwrap_or("").to_string();
                let i = v.get("input").cloned().unwrap_or(serde_json::Value::Null);
                items.push((
                    format!("corpus:{}", p.file_name().unwrap().to_string_lossy()),
                    c,
                    i,
                ));
            }
        }
    }
    for (src, check, input) in items {
        let saved = std::mem::replace(
            &mut ctx.mode,
            Mode::Replay {
                check: check.clone(),
                input: input.clone(),
                strict: false,
            },
        );
        ctx.replay_outcome = None;
        let prop = ctx.prop.clone();
        props::run(&prop, ctx);
        ctx.mode = saved;
        let outcome = ctx.replay_outcome.take();
        let text = match &outcome {
            None => "no-such-check".to_string(),
            Some(Ok(())) => "passes".to_string(),
            Some(Err(f)) => format!("fails:{}", f.sig),
        };
        if let Some(Err(f)) = outcome {
            let expected = src.strip_prefix("known:").map(|s| s == f.sig).unwrap_or(false);
            if expected {
                *ctx.stats.excluded_known.entry(f.sig.clone()).or_insert(0) += 1;
            } else {
                ctx.stats.violations.push(engine::RecordedFailure {
                    check: check.clone(),
                    sig: f.sig.clone(),
                    msg: format!("[regression input {}] {}", src, f.msg),
                    input: input.clone(),
                    shrunk: true,
                });
            }
        }
        ctx.stats.replayed.push((src, check, text));
    }
}
