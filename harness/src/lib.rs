//! bv — blots-lang verification harness (library part: engine, models, generators, properties).

pub mod blots;
pub mod engine;
pub mod gen_;
pub mod model;
pub mod props;

#[allow(dead_code, unused_imports, clippy::all)]
#[path = "/repo/blots-wasm/src/lib.rs"]
pub mod wasm_lib;
