//! Thin wrappers over blots-core's public API, mirroring how the CLI drives it.

use crate::model::MV;
use blots_core::ast::{Expr, Spanned, SpannedExpr};
use blots_core::environment::Environment;
use blots_core::error::RuntimeError;
use blots_core::expressions::{evaluate_ast, pairs_to_expr, pairs_to_expr_with_comments};
use blots_core::heap::Heap;
use blots_core::parser::{Rule, get_pairs};
use blots_core::values::Value;
use indexmap::IndexMap;
use std::cell::RefCell;
use std::rc::Rc;

#[derive(Clone, Debug, PartialEq)]
pub enum Stmt {
    Expr(SpannedExpr),
    /// `output <assignment | identifier>`: the inner expression
    Output(SpannedExpr),
    Comment(String),
}

impl Stmt {
    pub fn expr(&self) -> Option<&SpannedExpr> {
        match self {
            Stmt::Expr(e) | Stmt::Output(e) => Some(e),
            Stmt::Comment(_) => None,
        }
    }
    /// expression as the formatting drivers see it (Output wrapped in Expr::Output)
    pub fn for_format(&self) -> Option<SpannedExpr> {
        match self {
            Stmt::Expr(e) => Some(e.clone()),
            Stmt::Output(e) => Some(Spanned::dummy(Expr::Output {
                expr: Box::new(e.clone()),
            })),
            Stmt::Comment(_) => None,
        }
    }
}

#[derive(Clone, Debug)]
pub struct ParsedStmt {
    pub stmt: Stmt,
    /// end-of-line comment after the statement, if any
    pub eol_comment: Option<String>,
    pub start_line: usize,
    pub end_line: usize,
}

/// Parse a whole program the way the drivers do. Err = pest error text or AST conversion error.
pub fn parse_program(src: &str, with_comments: bool) -> Result<Vec<ParsedStmt>, String> {
    let pairs = get_pairs(src).map_err(|e| format!("parse: {}", e))?;
    let mut out = Vec::new();
    for pair in pairs {
        if pair.as_rule() != Rule::statement {
            continue;
        }
        let start_line = pair.as_span().start_pos().line_col().0;
        let end_line = pair.as_span().end_pos().line_col().0;
        let mut inner = pair.into_inner();
        let Some(first) = inner.next() else { continue };
        let conv = |p: pest::iterators::Pairs<Rule>| {
            if with_comments {
                pairs_to_expr_with_comments(p)
            } else {
                pairs_to_expr(p)
            }
        };
        let stmt = match first.as_rule() {
            Rule::comment => Stmt::Comment(first.as_str().to_string()),
            Rule::output_declaration => {
                Stmt::Output(conv(first.into_inner()).map_err(|e| format!("ast: {}", e))?)
            }
            Rule::expression => Stmt::Expr(conv(first.into_inner()).map_err(|e| format!("ast: {}", e))?),
            r => return Err(format!("unexpected rule {:?}", r)),
        };
        let eol_comment = inner
            .next()
            .filter(|p| p.as_rule() == Rule::comment)
            .map(|p| p.as_str().to_string());
        out.push(ParsedStmt {
            stmt,
            eol_comment,
            start_line,
            end_line,
        });
    }
    Ok(out)
}

/// Parse a source that must consist of exactly one expression statement.
pub fn parse_expr(src: &str) -> Result<SpannedExpr, String> {
    let stmts = parse_program(src, false)?;
    let mut exprs: Vec<SpannedExpr> = stmts
        .into_iter()
        .filter_map(|s| match s.stmt {
            Stmt::Expr(e) => Some(e),
            Stmt::Output(e) => Some(Spanned::dummy(Expr::Output { expr: Box::new(e) })),
            Stmt::Comment(_) => None,
        })
        .collect();
    if exprs.len() != 1 {
        return Err(format!("expected exactly one statement, found {}", exprs.len()));
    }
    Ok(exprs.pop().unwrap())
}

#[derive(Clone, Debug, PartialEq, Eq)]
pub struct EvalErr {
    pub message: String,
    pub span: Option<(usize, usize)>,
    /// length of the source the error refers to (its own `source`), if it carries one
    pub source_len: Option<usize>,
    pub span_on_char_boundaries: bool,
}

impl EvalErr {
    pub fn from_runtime(e: &RuntimeError) -> EvalErr {
        let span = e.span.map(|s| (s.start_byte, s.end_byte));
        let source_len = e.source.as_ref().map(|s| s.len());
        let ok = match (&e.span, &e.source) {
            (Some(s), Some(src)) => {
                s.start_byte <= s.end_byte
                    && s.end_byte <= src.len()
                    && src.is_char_boundary(s.start_byte)
                    && src.is_char_boundary(s.end_byte)
            }
            _ => true,
        };
        EvalErr {
            message: e.message.clone(),
            span,
            source_len,
            span_on_char_boundaries: ok,
        }
    }
}

pub type Obs = Result<MV, String>;

pub struct Sess {
    pub heap: Rc<RefCell<Heap>>,
    pub env: Rc<Environment>,
}

impl Default for Sess {
    fn default() -> Self {
        Self::new()
    }
}

impl Sess {
    /// Fresh heap and fresh root environment; process-global call statistics are reset.
    pub fn new() -> Sess {
        blots_core::functions::clear_function_call_stats();
        Sess {
            heap: Rc::new(RefCell::new(Heap::new())),
            env: Rc::new(Environment::new()),
        }
    }

    /// like the CLI: `inputs` is always bound (to a record)
    pub fn with_inputs(inputs: &[(String, MV)]) -> Sess {
        let s = Sess::new();
        s.set_inputs(inputs);
        s
    }

    /// a new root environment over the same heap
    pub fn fresh_env_same_heap(&self) -> Sess {
        Sess {
            heap: Rc::clone(&self.heap),
            env: Rc::new(Environment::new()),
        }
    }

    pub fn set_inputs(&self, inputs: &[(String, MV)]) {
        let mut map: IndexMap<String, Value> = IndexMap::new();
        for (k, v) in inputs {
            let val = v.to_value(&mut self.heap.borrow_mut());
            map.insert(k.clone(), val);
        }
        let rec = self.heap.borrow_mut().insert_record(map);
        self.env.insert("inputs".to_string(), rec);
    }

    pub fn bind(&self, name: &str, v: &MV) -> Value {
        let val = v.to_value(&mut self.heap.borrow_mut());
        self.env.insert(name.to_string(), val);
        val
    }

    pub fn bind_value(&self, name: &str, v: Value) {
        self.env.insert(name.to_string(), v);
    }

    pub fn eval_ast(&self, e: &SpannedExpr, source: &Rc<str>) -> Result<Value, RuntimeError> {
        evaluate_ast(e, Rc::clone(&self.heap), Rc::clone(&self.env), 0, Rc::clone(source))
    }

    /// parse + evaluate a single-expression source
    pub fn eval_src(&self, src: &str) -> Result<Value, String> {
        let e = parse_expr(src)?;
        let rc: Rc<str> = src.into();
        self.eval_ast(&e, &rc).map_err(|e| e.message)
    }

    pub fn mv(&self, v: &Value) -> Result<MV, String> {
        MV::from_value(v, &self.heap.borrow())
    }

    /// evaluate a single-expression source and observe it as a model value
    pub fn obs(&self, src: &str) -> Obs {
        let v = self.eval_src(src)?;
        self.mv(&v)
    }

    pub fn obs_ast(&self, e: &SpannedExpr, source: &Rc<str>) -> Obs {
        let v = self.eval_ast(e, source).map_err(|e| e.message)?;
        self.mv(&v)
    }

    /// Run a program statement by statement like the CLI (stop at the first failing one).
    /// Returns per-statement observations (comments skipped).
    pub fn run_program(&self, src: &str) -> Result<Vec<Obs>, String> {
        let stmts = parse_program(src, false)?;
        let rc: Rc<str> = src.into();
        let mut out = Vec::new();
        for st in &stmts {
            let Some(e) = st.stmt.expr() else { continue };
            let o = self.obs_ast(e, &rc);
            let failed = o.is_err();
            out.push(o);
            if failed {
                break;
            }
        }
        Ok(out)
    }

    /// sorted snapshot of the root environment as model values (functions by emitted text)
    pub fn snapshot(&self) -> Vec<(String, Result<MV, String>)> {
        let mut v: Vec<(String, Result<MV, String>)> = self
            .env
            .iter()
            .map(|(k, val)| {
                let m = self.mv(&val);
                (k, m)
            })
            .collect();
        v.sort_by(|a, b| a.0.cmp(&b.0));
        v
    }
}

/// AST with all comment attachments erased (C07 compares modulo comment placement).
pub fn strip_comments(e: &SpannedExpr) -> SpannedExpr {
    use blots_core::ast::{Commented, RecordEntry, RecordKey};
    let sp = |n: Expr| Spanned::new(n, e.span);
    let b = |x: &SpannedExpr| Box::new(strip_comments(x));
    match &e.node {
        Expr::List(items) => sp(Expr::List(
            items.iter().map(|c| Commented::new(strip_comments(&c.node))).collect(),
        )),
        Expr::Record(entries) => sp(Expr::Record(
            entries
                .iter()
                .map(|c| {
                    let key = match &c.node.key {
                        RecordKey::Dynamic(k) => RecordKey::Dynamic(b(k)),
                        RecordKey::Spread(k) => RecordKey::Spread(b(k)),
                        k => k.clone(),
                    };
                    Commented::new(RecordEntry {
                        key,
                        value: strip_comments(&c.node.value),
                    })
                })
                .collect(),
        )),
        Expr::Lambda { args, body } => sp(Expr::Lambda {
            args: args.clone(),
            body: b(body),
        }),
        Expr::Conditional {
            condition,
            then_expr,
            else_expr,
        } => sp(Expr::Conditional {
            condition: b(condition),
            then_expr: b(then_expr),
            else_expr: b(else_expr),
        }),
        Expr::DoBlock {
            statements,
            return_expr,
        } => sp(Expr::DoBlock {
            statements: statements
                .iter()
                .map(|c| Commented::new(strip_comments(&c.node)))
                .collect(),
            return_expr: Box::new(Commented::new(strip_comments(&return_expr.node))),
        }),
        Expr::Assignment { ident, value } => sp(Expr::Assignment {
            ident: ident.clone(),
            value: b(value),
        }),
        Expr::Output { expr } => sp(Expr::Output { expr: b(expr) }),
        Expr::Call { func, args } => sp(Expr::Call {
            func: b(func),
            args: args.iter().map(strip_comments).collect(),
        }),
        Expr::Access { expr, index } => sp(Expr::Access {
            expr: b(expr),
            index: b(index),
        }),
        Expr::DotAccess { expr, field } => sp(Expr::DotAccess {
            expr: b(expr),
            field: field.clone(),
        }),
        Expr::BinaryOp { op, left, right } => sp(Expr::BinaryOp {
            op: *op,
            left: b(left),
            right: b(right),
        }),
        Expr::UnaryOp { op, expr } => sp(Expr::UnaryOp {
            op: *op,
            expr: b(expr),
        }),
        Expr::PostfixOp { op, expr } => sp(Expr::PostfixOp {
            op: *op,
            expr: b(expr),
        }),
        Expr::Spread(x) => sp(Expr::Spread(b(x))),
        other => sp(other.clone()),
    }
}

/// Run the real blots-wasm formatting driver natively through hook H1.
/// The caller must have checked that the source parses and converts.
pub fn wasm_format(src: &str, max_columns: Option<usize>) -> Option<String> {
    crate::wasm_lib::verif_hooks::arm();
    let _ = crate::wasm_lib::format_blots(src, max_columns);
    crate::wasm_lib::verif_hooks::take()
}

thread_local! {
    static PARSE_CACHE: RefCell<std::collections::HashMap<String, Result<(Rc<SpannedExpr>, Rc<str>), String>>> =
        RefCell::new(std::collections::HashMap::new());
}

/// parse a single-expression source once per thread (for fixed probe expressions)
pub fn parse_cached(src: &str) -> Result<(Rc<SpannedExpr>, Rc<str>), String> {
    PARSE_CACHE.with(|c| {
        let mut c = c.borrow_mut();
        if let Some(r) = c.get(src) {
            return r.clone();
        }
        let r = parse_expr(src).map(|e| (Rc::new(e), Rc::<str>::from(src)));
        if c.len() < 10_000 {
            c.insert(src.to_string(), r.clone());
        }
        r
    })
}

impl Sess {
    /// evaluate a fixed probe expression (parsed once per thread) and observe it
    pub fn probe(&self, src: &str) -> Obs {
        let (e, rc) = parse_cached(src)?;
        self.obs_ast(&e, &rc)
    }
}


/// `SerializableValue::from_json` through an adapter that compiles whether the function takes the
/// JSON value by reference (as on the pinned tree) or by value: a refactoring of that signature
/// must not stop the checks from building.
pub trait JsonArg<'a> {
    fn make(v: &'a serde_json::Value) -> Self;
}
impl<'a> JsonArg<'a> for &'a serde_json::Value {
    fn make(v: &'a serde_json::Value) -> Self {
        v
    }
}
impl<'a> JsonArg<'a> for serde_json::Value {
    fn make(v: &'a serde_json::Value) -> Self {
        v.clone()
    }
}
fn call_from_json<'a, A: JsonArg<'a>, F: Fn(A) -> blots_core::values::SerializableValue>(f: F, v: &'a serde_json::Value) -> blots_core::values::SerializableValue {
    f(A::make(v))
}
pub fn from_json(v: &serde_json::Value) -> blots_core::values::SerializableValue {
    call_from_json(blots_core::values::SerializableValue::from_json, v)
}
