//! Shared machinery of C07 / C08 / C09: program generator with comments and layout, the
//! three formatting drivers, the comment lexer, structural AST diff.

use crate::blots::{ParsedStmt, Stmt, parse_program, strip_comments, wasm_format};
use crate::engine::Ctx;
use crate::engine::proc::{Limits, run as run_proc};
use crate::gen_::expr::{self, E, Mode, Printer, Tape};
use blots_core::ast::{Expr, RecordKey, SpannedExpr};
use blots_core::formatter::format_expr;
use proptest::prelude::*;
use serde::{Deserialize, Serialize};

#[derive(Clone, Debug, Serialize, Deserialize)]
pub struct Case {
    pub prog: Vec<E>,
    pub layout: Vec<u16>,
    pub width: u16,
    pub cli: bool,
    /// hand-written program text (regression inputs); overrides prog / layout
    #[serde(default)]
    pub text: Option<String>,
    /// the statements come from the typed generator and follow its prelude (closed program)
    #[serde(default)]
    pub typed: bool,
}

pub const WIDTHS: [u16; 11] = [1, 2, 5, 10, 20, 30, 40, 60, 80, 100, 120];

pub fn width_opt(w: u16) -> Option<usize> {
    if w == 80 { None } else { Some(w as usize) }
}

pub struct Rendered {
    pub text: String,
    pub comments: Vec<String>,
    pub comment_kinds: Vec<&'static str>,
    pub position_kinds: Vec<&'static str>,
}

/// one statement alone, comments only inside the expression (for the per-statement driver)
pub fn render_statement(c: &Case, i: usize) -> Rendered {
    if let Some(t) = &c.text {
        // a given text is formatted as a whole by the per-statement driver only when it is one statement
        let comments = lex_comments(t);
        let n = comments.len();
        return Rendered {
            text: if c.prog.len() <= 1 && i == 0 { t.clone() } else { String::new() },
            comments: if c.prog.len() <= 1 && i == 0 { comments } else { vec![] },
            comment_kinds: vec!["given-text"; n],
            position_kinds: vec!["given-text"],
        };
    }
    let rot: Vec<u16> = c.layout.iter().cycle().skip(i * 7 + 1).take(c.layout.len()).copied().collect();
    let mut pr = Printer::new(Mode::Minimal, Tape::new(&rot));
    pr.comments = true;
    pr.statement_comments = false;
    pr.redundancy = true;
    let text = pr.program(&c.prog[i..i + 1]);
    let (comments, comment_kinds) = in_text_order(&text, &pr.inserted, &pr.inserted_kinds);
    Rendered {
        text,
        comments,
        comment_kinds,
        position_kinds: pr.position_kinds.iter().copied().collect(),
    }
}

/// comments in textual order (the printer numbers them in generation order; every comment
/// text is unique thanks to its #n suffix)
fn in_text_order(text: &str, comments: &[String], kinds: &[&'static str]) -> (Vec<String>, Vec<&'static str>) {
    let mut v: Vec<(usize, String, &'static str)> = comments
        .iter()
        .zip(kinds)
        .map(|(c, k)| {
            // "#1" must not match inside "#12"
            let pos = text
                .match_indices(c.as_str())
                .find(|(i, m)| !text[i + m.len()..].starts_with(|ch: char| ch.is_ascii_digit()))
                .map(|(i, _)| i)
                .unwrap_or(usize::MAX);
            (pos, c.clone(), *k)
        })
        .collect();
    v.sort_by_key(|x| x.0);
    (v.iter().map(|x| x.1.clone()).collect(), v.iter().map(|x| x.2).collect())
}

pub fn render(c: &Case, with_comments: bool) -> Rendered {
    render_with(c, with_comments, false)
}

/// `speculative`: also try comment positions the pinned grammar rejects (C09 discards the program
/// when the parser under test refuses it)
pub fn render_with(c: &Case, with_comments: bool, speculative: bool) -> Rendered {
    if let Some(t) = &c.text {
        let comments = lex_comments(t);
        let n = comments.len();
        return Rendered {
            text: t.clone(),
            comments,
            comment_kinds: vec!["given-text"; n],
            position_kinds: vec!["given-text"],
        };
    }
    let mode = if c.layout.first().map(|t| t % 3 == 0).unwrap_or(false) { Mode::Full } else { Mode::Minimal };
    let mut pr = Printer::new(mode, Tape::new(&c.layout));
    pr.comments = with_comments;
    pr.speculative_comments = speculative;
    pr.redundancy = true;
    let mut text = pr.program(&c.prog);
    if c.typed {
        text = format!("{}{}", crate::gen_::typed::PRELUDE, text);
    }
    let (comments, comment_kinds) = in_text_order(&text, &pr.inserted, &pr.inserted_kinds);
    Rendered {
        text,
        comments,
        comment_kinds,
        position_kinds: pr.position_kinds.iter().copied().collect(),
    }
}

pub fn strategy(max_stmts: usize, depth: usize) -> BoxedStrategy<Case> {
    (
        prop::collection::vec(any::<u16>(), 0..220),
        prop::collection::vec(any::<u16>(), 0..260),
        prop_oneof![3 => prop::sample::select(WIDTHS.to_vec()), 1 => 1u16..130],
        prop::bool::weighted(0.08),
    )
        .prop_map(move |(t, layout, width, cli)| Case {
            prog: expr::syntactic_program(&mut Tape::new(&t), max_stmts, depth),
            layout,
            width,
            cli,
            text: None,
            typed: false,
        })
        .boxed()
}

/// closed programs from the typed generator (for the evaluation comparison)
pub fn typed_strategy() -> BoxedStrategy<Case> {
    (
        prop::collection::vec(any::<u16>(), 0..260),
        prop::collection::vec(any::<u16>(), 0..260),
        prop_oneof![3 => prop::sample::select(WIDTHS.to_vec()), 1 => 1u16..130],
        prop::bool::weighted(0.05),
    )
        .prop_map(|(t, layout, width, cli)| {
            let (prog, _) = crate::gen_::typed::program(&mut Tape::new(&t), 5, 5, false);
            Case { prog, layout, width, cli, text: None, typed: true }
        })
        .boxed()
}

/// comments of a program text, in order: `//` outside a string literal up to the end of line
pub fn lex_comments(text: &str) -> Vec<String> {
    let cs: Vec<char> = text.chars().collect();
    let mut out = Vec::new();
    let mut i = 0;
    while i < cs.len() {
        let c = cs[i];
        if c == '"' || c == '\'' {
            i += 1;
            while i < cs.len() && cs[i] != c {
                i += 1;
            }
            i += 1;
        } else if c == '/' && i + 1 < cs.len() && cs[i + 1] == '/' {
            let st = i;
            while i < cs.len() && cs[i] != '\n' && cs[i] != '\r' {
                i += 1;
            }
            out.push(cs[st..i].iter().collect::<String>().trim_end().to_string());
        } else {
            i += 1;
        }
    }
    out
}

pub fn kind(e: &Expr) -> String {
    match e {
        Expr::Number(_) => "number".into(),
        Expr::String(_) => "string".into(),
        Expr::Bool(_) => "bool".into(),
        Expr::Null => "null".into(),
        Expr::Identifier(_) => "identifier".into(),
        Expr::InputReference(_) => "input-ref".into(),
        Expr::BuiltIn(_) => "built-in".into(),
        Expr::List(_) => "list".into(),
        Expr::Record(_) => "record".into(),
        Expr::Lambda { .. } => "lambda".into(),
        Expr::Conditional { .. } => "conditional".into(),
        Expr::DoBlock { .. } => "do-block".into(),
        Expr::Assignment { .. } => "assignment".into(),
        Expr::Output { .. } => "output".into(),
        Expr::Call { .. } => "call".into(),
        Expr::Access { .. } => "index".into(),
        Expr::DotAccess { .. } => "field".into(),
        Expr::BinaryOp { op, .. } => format!("binary({})", crate::model::prec::Op::from_core(*op).text()),
        Expr::UnaryOp { op, .. } => format!("unary({:?})", op),
        Expr::PostfixOp { .. } => "factorial".into(),
        Expr::Spread(_) => "spread".into(),
    }
}

fn children(e: &Expr) -> Vec<(&'static str, &SpannedExpr)> {
    match e {
        Expr::List(items) => items.iter().map(|c| ("item", &c.node)).collect(),
        Expr::Record(entries) => entries
            .iter()
            .flat_map(|c| {
                let mut v: Vec<(&'static str, &SpannedExpr)> = Vec::new();
                match &c.node.key {
                    RecordKey::Dynamic(k) => v.push(("key", k)),
                    RecordKey::Spread(k) => v.push(("spread", k)),
                    _ => {}
                }
                v.push(("value", &c.node.value));
                v
            })
            .collect(),
        Expr::Lambda { body, .. } => vec![("body", body)],
        Expr::Conditional {
            condition,
            then_expr,
            else_expr,
        } => vec![("condition", condition), ("then", then_expr), ("else", else_expr)],
        Expr::DoBlock {
            statements,
            return_expr,
        } => statements.iter().map(|s| ("statement", &s.node)).chain(std::iter::once(("return", &return_expr.node))).collect(),
        Expr::Assignment { value, .. } => vec![("value", value)],
        Expr::Output { expr } => vec![("output", expr)],
        Expr::Call { func, args } => std::iter::once(("callee", func.as_ref())).chain(args.iter().map(|a| ("argument", a))).collect(),
        Expr::Access { expr, index } => vec![("base", expr), ("index", index)],
        Expr::DotAccess { expr, .. } => vec![("base", expr)],
        Expr::BinaryOp { left, right, .. } => vec![("left", left), ("right", right)],
        Expr::UnaryOp { expr, .. } => vec![("operand", expr)],
        Expr::PostfixOp { expr, .. } => vec![("operand", expr)],
        Expr::Spread(e) => vec![("operand", e)],
        _ => vec![],
    }
}

/// where two ASTs first differ: "<parent kind>/<child kind>/<slot>" of the EXPECTED tree
pub fn diff_sig(want: &SpannedExpr, got: &SpannedExpr) -> Option<String> {
    fn go(want: &SpannedExpr, got: &SpannedExpr, parent: &str, slot: &str) -> Option<String> {
        if want == got {
            return None;
        }
        let (kw, kg) = (kind(&want.node), kind(&got.node));
        if kw != kg {
            return Some(format!("{}/{}/{}", parent, kw, slot));
        }
        let (cw, cg) = (children(&want.node), children(&got.node));
        if cw.len() != cg.len() {
            return Some(format!("{}/{}/{}:arity", parent, kw, slot));
        }
        for ((s, a), (_, b)) in cw.iter().zip(cg.iter()) {
            if let Some(d) = go(a, b, &kw, s) {
                return Some(d);
            }
        }
        // same shape, different leaf content
        Some(format!("{}/{}/{}:content", parent, kw, slot))
    }
    go(want, got, "top", "statement")
}

pub fn stmt_core(s: &Stmt) -> Option<SpannedExpr> {
    s.for_format().map(|e| strip_comments(&e))
}

pub enum Driver {
    /// format_expr per statement (statement-level comments are not its business)
    Library,
    /// the blots-wasm driver loop, natively through hook H1
    Wasm,
    /// `blots --format IN OUT` (default width)
    Cli,
}

/// format a whole program through the WASM driver
pub fn format_wasm(text: &str, width: u16) -> Option<String> {
    wasm_format(text, width_opt(width))
}

/// format every statement through the library entry point; None for comment statements
pub fn format_library(stmts: &[ParsedStmt], width: u16) -> Vec<Option<String>> {
    stmts.iter().map(|s| s.stmt.for_format().map(|e| format_expr(&e, width_opt(width)))).collect()
}

pub fn format_cli(ctx: &Ctx, text: &str) -> Result<String, String> {
    let dir = crate::engine::proc::scratch_dir("fmt");
    let inp = format!("{}/in.blots", dir);
    let outp = format!("{}/out.blots", dir);
    std::fs::write(&inp, text).map_err(|e| e.to_string())?;
    // a third of the runs write into a file that already holds a longer, earlier program; a third
    // format the file in place; the rest write to a fresh path
    let outp = match crate::engine::hash_str(text) % 3 {
        0 => {
            std::fs::write(&outp, format!("{}\n// an earlier version of this file\nzz_old_1 = [1, 2, 3]\nzz_old_2 = \"{}\"\n", text, "#".repeat(text.len() + 40))).map_err(|e| e.to_string())?;
            outp
        }
        1 => inp.clone(),
        _ => outp,
    };
    let r = run_proc(&ctx.cli_path, &["--format".into(), inp.clone(), outp.clone()], None, None, &Limits::default());
    let res = match r {
        Ok(r) if r.code == Some(0) => std::fs::read_to_string(&outp).map_err(|e| format!("no output file: {}", e)),
        Ok(r) => Err(format!("blots --format: {} {} {}", r.describe(), r.stdout, r.stderr)),
        Err(e) => Err(format!("spawn: {}", e)),
    };
    let _ = std::fs::remove_dir_all(&dir);
    res
}

/// parse with comments; Err(text) when the parser rejects
pub fn parse_c(text: &str) -> Result<Vec<ParsedStmt>, String> {
    parse_program(text, true)
}

/// why does a formatter output not parse? (signature class)
pub fn unparseable_class(out: &str) -> &'static str {
    let has = |p: &str| out.contains(p);
    if has("if\n") {
        "layout:conditional-if-newline"
    } else if has("\\\"") || has("\\\\") {
        "string-escape"
    } else {
        "other"
    }
}

/// entry point of the libFuzzer `structured` target: C07 (meaning), C08 (idempotence) and
/// C09 (comments) oracles on the program decoded from one choice tape
pub fn fuzz_one(tape: &[u16]) -> crate::engine::Outcome {
    use crate::engine::Check;
    if tape.len() < 4 {
        return Ok(());
    }
    let split = tape.len() / 2;
    let widths = WIDTHS;
    let case = Case {
        prog: expr::syntactic_program(&mut Tape::new(&tape[..split]), 4, 5),
        layout: tape[split..].to_vec(),
        width: widths[tape[0] as usize % widths.len()],
        cli: false,
        text: None,
        typed: false,
    };
    static KNOWN: std::sync::OnceLock<crate::engine::KnownFile> = std::sync::OnceLock::new();
    let known = KNOWN.get_or_init(|| crate::engine::load_known(concat!(env!("CARGO_MANIFEST_DIR"), "/../known_findings.json")));
    // one context per property: each steps over the findings recorded for that property only
    let mk = |prop: &str| Ctx::new(prop, crate::engine::Tier::Quick, 1, 0, 1, 0, 1.0, crate::engine::Mode::Search, known, None, None);
    super::c07::Meaning.run(&case, &mut mk("C07"))?;
    super::c08::Idempotent.run(&case, &mut mk("C08"))?;
    super::c09::Comments.run(&case, &mut mk("C09"))?;
    Ok(())
}


/// `bv fmtdump C07 <seed> <n>`: deterministic dump (one hash line per program x width, through the
/// library entry point and the wasm driver) used to compare two versions of the formatter
/// byte for byte (differential check of formatter refactorings; see tools/fmt_diff.sh).
pub fn dump(seed: u64, n: u32) {
    use proptest::strategy::ValueTree;
    use proptest::test_runner::{Config, RngAlgorithm, RngSeed, TestRng, TestRunner};
    let mut seed_bytes = [0u8; 32];
    seed_bytes[..8].copy_from_slice(&seed.to_le_bytes());
    let mut runner = TestRunner::new_with_rng(Config { failure_persistence: None, rng_seed: RngSeed::Fixed(seed), ..Config::default() }, TestRng::from_seed(RngAlgorithm::ChaCha, &seed_bytes));
    let strategies = [strategy(5, 4), strategy(2, 7), typed_strategy(), lambda_heavy_strategy()];
    for i in 0..n {
        let st = &strategies[(i % 4) as usize];
        let Ok(tree) = st.new_tree(&mut runner) else { continue };
        let c = tree.current();
        let r = render(&c, true);
        let Ok(stmts) = parse_c(&r.text) else {
            println!("{} unparseable {:016x}", i, crate::engine::hash_str(&r.text));
            continue;
        };
        for w in WIDTHS.iter().chain([c.width].iter()) {
            let lib: Vec<String> = format_library(&stmts, *w).into_iter().map(|o| o.unwrap_or_default()).collect();
            let wasm = format_wasm(&r.text, *w).unwrap_or_default();
            println!("{} w{} {:016x} {:016x} {:016x}", i, w, crate::engine::hash_str(&r.text), crate::engine::hash_str(&lib.join("\u{1}")), crate::engine::hash_str(&wasm));
        }
    }
}

/// programs dominated by lambdas: curried, applied, with do-block / conditional / list bodies
pub fn lambda_heavy_strategy() -> BoxedStrategy<Case> {
    (prop::collection::vec(any::<u16>(), 0..120), prop::collection::vec(any::<u16>(), 0..160), prop_oneof![3 => prop::sample::select(WIDTHS.to_vec()), 1 => 1u16..130])
        .prop_map(|(t, layout, width)| {
            let mut tape = Tape::new(&t);
            let n = 1 + tape.pick(3);
            let prog = (0..n).map(|k| E::Assign(format!("f{}", k), Box::new(lambda_nest(&mut tape, 8)))).collect();
            Case { prog, layout, width, cli: false, text: None, typed: false }
        })
        .boxed()
}

fn lambda_nest(t: &mut Tape, depth: usize) -> E {
    use crate::gen_::expr::{P, bin, id, n};
    use crate::model::prec::Op;
    if depth == 0 || t.exhausted() {
        return match t.pick(8) {
            // lists / records (which the layout decorates with comments) under operators
            4 => bin(Op::Add, E::List(vec![id("a"), n(2.0)]), id("b")),
            5 => E::Index(Box::new(E::List(vec![id("a"), id("b")])), Box::new(n(0.0))),
            6 => E::Neg(Box::new(E::Field(Box::new(E::Rec(vec![crate::gen_::expr::RE::Pair("k".into(), id("a"))])), "k".into()))),
            7 => E::If(Box::new(id("c")), Box::new(E::List(vec![id("a"), n(1.0)])), Box::new(E::List(vec![E::Spread(Box::new(E::List(vec![id("b")])))]))),
            0 => id("a"),
            1 => bin(Op::Add, id("a"), bin(Op::Mul, id("b"), n(2.0))),
            2 => E::List(vec![id("a"), id("b"), n(3.0)]),
            _ => E::If(Box::new(bin(Op::Gt, id("a"), n(0.0))), Box::new(id("a")), Box::new(E::Neg(Box::new(id("a"))))),
        };
    }
    let d = depth - 1;
    match t.pick(10) {
        0 | 1 | 2 | 3 => E::Lambda(vec![P::Req(["a", "b", "c", "long_parameter_name"][t.pick(4)].into())], Box::new(lambda_nest(t, d))),
        4 => E::Lambda(vec![P::Req("a".into()), P::Opt("b".into())], Box::new(lambda_nest(t, d))),
        5 => E::Call(Box::new(E::Lambda(vec![P::Req("a".into())], Box::new(lambda_nest(t, d)))), vec![lambda_nest(t, d.min(1))]),
        6 => E::Do(vec![E::Assign("t".into(), Box::new(lambda_nest(t, d.min(2))))], Box::new(lambda_nest(t, d))),
        7 => E::List(vec![lambda_nest(t, d), lambda_nest(t, d.min(1))]),
        8 => bin(Op::Via, id("xs"), E::Lambda(vec![P::Req("a".into())], Box::new(lambda_nest(t, d)))),
        _ => {
            // the condition is a plain name, or holds a multi-line string and is long
            let cond = if t.chance(1, 3) {
                bin(Op::Eq, E::Str(["line one\nline two", "first \n\n  third", "crlf\r\nline"][t.pick(3)].into()), bin(Op::Add, id("some_rather_long_identifier_name"), E::Str("tail\nmore".into())))
            } else {
                id("c")
            };
            E::If(Box::new(cond), Box::new(lambda_nest(t, d)), Box::new(lambda_nest(t, d.min(1))))
        }
    }
}
