//! C16 — numbers keep their exact value through every textual path.

use crate::blots::{Sess, parse_expr};
use crate::engine::{Check, Ctx, Outcome, pick_idx};
use crate::fail;
use crate::model::dec::{Dec, next_up};
use crate::model::mv::num;
use crate::model::{F, MV};
use blots_core::ast::{Expr, SpannedExpr};
use blots_core::values::SerializableValue;
use proptest::prelude::*;
use serde::{Deserialize, Serialize};

pub const RULE: &str = "paths: finite doubles (uniform bit patterns, boundary pool, powers of 2 and 10 +-1 ulp, integers k +-1 ulp, the 1e15 / 1e21 printing thresholds, 2^53 neighbourhood, subnormals, f64::MAX, -0) through to_number(to_string(x)), JSON output->input, closure capture -> emitted source -> reload -> call (the captured number used bare, inside index brackets, as a call argument, in a record literal, in a list literal and as an applied lambda's argument), and literal -> format_expr (several widths) -> parse; all compared by bit pattern. literals: spellings of the exact decimal value of a double (underscore groups, shifted point with compensating exponent, e/E, signed exponent, leading dot, leading zeros, leading +), exact midpoints between adjacent doubles and midpoint +- tiny, short mantissas (1..19 digits) with exponents up to +-330 (reference: Rust's correctly rounded parser), and 0x / 0b literals with underscores, evaluated as literals and read by to_number, compared with the correctly rounded reference double (computed by construction with exact decimal arithmetic / u128). Lists of numbers (runs with a constant step of length 2..33 starting at whole, fractional and -0 values; short numbers around one very long or very small one; random lists of 2..40) go through closure capture -> emitted source -> reload and through list literal -> format_expr at six widths -> evaluation, compared position by position by bit pattern. Non-trivial = the double is not an integer below 2^53, or the spelling uses >= 2 optional features; distinct by bit pattern / literal text.";
pub const ASSUMPTIONS: &[&str] = &[
    "Rust's exact float formatting and the harness decimal arithmetic are the trusted base for reference values",
    "radix literals >= 2^63 may be rejected with an error (the implementation parses through i64) but must never evaluate to a wrong value",
    "the parser never produces a negative number node (a leading '-' is the prefix operator), so the formatter path is exercised on |x| and on -|x| as a negation",
];

#[derive(Clone, Debug, Serialize, Deserialize)]
pub enum Case {
    Paths(F),
    /// literal text must evaluate to exactly `expect`
    Literal { text: String, expect: F, features: u32 },
    /// literal must evaluate to `expect` or be rejected with an error
    LiteralOrError { text: String, expect: F },
    /// numbers as items of one list: captured by a closure and emitted, and written as a list
    /// literal and formatted at several widths; each position must keep its number
    Lists(Vec<F>),
}

pub struct Numbers;

fn mag_class(x: f64) -> &'static str {
    let a = x.abs();
    if a == 0.0 {
        "zero"
    } else if a < f64::MIN_POSITIVE {
        "subnormal"
    } else if a.fract() == 0.0 && a < 1e15 {
        "integer<1e15"
    } else if a.fract() == 0.0 {
        "integer>=1e15"
    } else if a < 1e-4 {
        "tiny-fraction"
    } else if a >= 1e15 {
        "huge"
    } else {
        "fraction"
    }
}

fn find_number(e: &SpannedExpr) -> Option<f64> {
    match &e.node {
        Expr::Number(n) => Some(*n),
        Expr::Assignment { value, .. } => find_number(value),
        Expr::UnaryOp { expr, .. } => find_number(expr).map(|x| -x),
        _ => None,
    }
}

impl Check for Numbers {
    type Case = Case;
    fn name(&self) -> &'static str {
        "numbers"
    }
    fn run(&self, c: &Case, ctx: &mut Ctx) -> Outcome {
        match c {
            Case::Paths(F(x)) => {
                let x = *x;
                assert!(x.is_finite());
                let cls = mag_class(x);
                ctx.label(cls);
                if !(x.fract() == 0.0 && x.abs() < 9007199254740992.0) {
                    ctx.nontrivial(x.to_bits());
                }
                // P1: to_string / to_number
                let sess = Sess::new();
                sess.bind("x", &num(x));
                match sess.probe("to_number(to_string(x))") {
                    Ok(MV::Num(F(y))) if y.to_bits() == x.to_bits() => {}
                    other => fail!(format!("to_string:{}", cls), "to_number(to_string({:e})) [bits {:016x}] = {:?}", x, x.to_bits(), other),
                }
                // P2: JSON output -> input
                let text = serde_json::to_string(&SerializableValue::Number(x).to_json()).unwrap();
                let back = serde_json::from_str::<serde_json::Value>(&text).map(|v| crate::blots::from_json(&v));
                match back {
                    Ok(SerializableValue::Number(y)) if y.to_bits() == x.to_bits() => {}
                    other => fail!(
                        format!("json:{}", cls),
                        "{:e} [bits {:016x}] is written to JSON as {} and read back as {:?}",
                        x,
                        x.to_bits(),
                        text,
                        other.map(|v| MV::from_sv(&v))
                    ),
                }
                // P3: closure capture -> emitted source -> reload -> call
                let f = match sess.eval_src("() => x") {
                    Ok(v) => v,
                    Err(e) => fail!("emit:harness", "cannot build closure: {}", e),
                };
                let sv = match SerializableValue::from_value(&f, &sess.heap.borrow()) {
                    Ok(sv) => sv,
                    Err(e) => fail!(format!("emit:{}", cls), "closure capturing {:e} does not serialise: {}", x, e),
                };
                let jtext = serde_json::to_string(&sv.to_json()).unwrap();
                let s2 = Sess::new();
                let reloaded = serde_json::from_str::<serde_json::Value>(&jtext)
                    .map_err(|e| e.to_string())
                    .and_then(|v| crate::blots::from_json(&v).to_value(&mut s2.heap.borrow_mut()).map_err(|e| e.to_string()));
                match reloaded {
                    Ok(v) => {
                        s2.bind_value("f", v);
                        match s2.probe("f()") {
                            Ok(MV::Num(F(y))) if y.to_bits() == x.to_bits() => {}
                            other => fail!(format!("emit:{}", cls), "closure capturing {:e} [bits {:016x}] is emitted as {} and returns {:?} after reload", x, x.to_bits(), jtext, other),
                        }
                    }
                    Err(e) => fail!(format!("emit:{}", cls), "closure capturing {:e} is emitted as {} which does not reload: {}", x, jtext, e),
                }
                // P3b: the captured number sits inside index brackets, call arguments and a record
                // literal of the emitted body
                if x.is_finite() {
                    let body = "() => [[7, 8][x - x] + x, max(x, x), {v: x}.v, [x][0], (y => y)(x)]";
                    let f = match sess.eval_src(body) {
                        Ok(v) => v,
                        Err(e) => fail!("emit:harness", "cannot build closure: {}", e),
                    };
                    let want = sess.probe("[7 + x, x, x, x, x]");
                    let reloaded = SerializableValue::from_value(&f, &sess.heap.borrow())
                        .map_err(|e| e.to_string())
                        .map(|sv| serde_json::to_string(&sv.to_json()).unwrap())
                        .and_then(|jtext| {
                            let s3 = Sess::new();
                            let v = serde_json::from_str::<serde_json::Value>(&jtext)
                                .map_err(|e| e.to_string())
                                .and_then(|v| crate::blots::from_json(&v).to_value(&mut s3.heap.borrow_mut()).map_err(|e| e.to_string()))?;
                            s3.bind_value("f", v);
                            Ok((jtext, s3.probe("f()")))
                        });
                    match reloaded {
                        Ok((jtext, got)) => {
                            let same = match (&got, &want) {
                                (Ok(MV::List(a)), Ok(MV::List(b))) => a.len() == b.len() && a.iter().zip(b).all(|(p, q)| matches!((p, q), (MV::Num(F(u)), MV::Num(F(v))) if u.to_bits() == v.to_bits())),
                                _ => false,
                            };
                            if !same {
                                fail!(format!("emit-positions:{}", cls), "a closure using the captured {:e} in index brackets, arguments and a record is emitted as {} and returns {:?} after reload, in-process {:?}", x, short(&jtext), got, want);
                            }
                        }
                        Err(e) => fail!(format!("emit-positions:{}", cls), "closure capturing {:e} does not survive emission: {}", x, e),
                    }
                }
                // P4: literal -> formatter -> parser
                let lit = format!("v = {}", crate::model::mv::num_source(x, false));
                let ast = match parse_expr(&lit) {
                    Ok(a) => a,
                    Err(e) => fail!(format!("literal:display:{}", cls), "{:?} does not parse: {}", lit, e),
                };
                if find_number(&ast).map(|y| y.to_bits()) != Some(x.to_bits()) {
                    fail!(format!("literal:display:{}", cls), "{:?} parses to {:?}", lit, find_number(&ast));
                }
                for w in [None, Some(1usize), Some(12), Some(200)] {
                    let out = blots_core::formatter::format_expr(&ast, w);
                    let y = parse_expr(&out).ok().and_then(|a| find_number(&a));
                    if y.map(|y| y.to_bits()) != Some(x.to_bits()) {
                        fail!(format!("format:{}", cls), "formatter prints the number {:e} [bits {:016x}] as {:?}, which reads back as {:?}", x, x.to_bits(), out, y);
                    }
                }
                Ok(())
            }
            Case::Lists(xs) => {
                ctx.label("numbers-in-a-list");
                if xs.len() >= 16 {
                    ctx.label("list>=16-numbers");
                }
                ctx.nontrivial(crate::engine::hash_str(&format!("{:?}", xs)));
                let want: Vec<u64> = xs.iter().map(|f| f.0.to_bits()).collect();
                let bits_of = |o: &crate::blots::Obs| -> Option<Vec<u64>> {
                    match o {
                        Ok(MV::List(v)) => v.iter().map(|m| if let MV::Num(F(y)) = m { Some(y.to_bits()) } else { None }).collect(),
                        _ => None,
                    }
                };
                let sess = Sess::new();
                sess.bind("xs", &MV::List(xs.iter().map(|f| MV::Num(*f)).collect()));
                // closure capture -> emitted source -> reload -> call
                let f = match sess.eval_src("() => xs") {
                    Ok(v) => v,
                    Err(e) => fail!("emit:harness", "cannot build closure: {}", e),
                };
                let sv = match SerializableValue::from_value(&f, &sess.heap.borrow()) {
                    Ok(sv) => sv,
                    Err(e) => fail!("emit-list:not-serialised", "closure capturing a list of numbers does not serialise: {}", e),
                };
                let jtext = serde_json::to_string(&sv.to_json()).unwrap();
                let s2 = Sess::new();
                let reloaded = serde_json::from_str::<serde_json::Value>(&jtext)
                    .map_err(|e| e.to_string())
                    .and_then(|v| crate::blots::from_json(&v).to_value(&mut s2.heap.borrow_mut()).map_err(|e| e.to_string()));
                match reloaded {
                    Ok(v) => {
                        s2.bind_value("f", v);
                        let got = s2.probe("f()");
                        if bits_of(&got).as_ref() != Some(&want) {
                            fail!("emit-list:changed", "a closure capturing the list {:?} is emitted as {} and returns {:?} after reload", xs.iter().map(|f| f.0).collect::<Vec<_>>(), short(&jtext), got);
                        }
                    }
                    Err(e) => fail!("emit-list:not-reloaded", "closure capturing a list of numbers is emitted as {} which does not reload: {}", short(&jtext), e),
                }
                // list literal -> formatter (several widths) -> parser -> evaluation
                let items: Vec<String> = xs.iter().map(|f| if f.0.is_sign_negative() { format!("-{}", crate::model::mv::num_source(-f.0, false)) } else { crate::model::mv::num_source(f.0, false) }).collect();
                let lit = format!("v = [{}]", items.join(", "));
                let direct = Sess::new().probe(&lit);
                if bits_of(&direct).as_ref() != Some(&want) {
                    fail!("literal-list:harness", "{:?} evaluates to {:?}", short(&lit), direct);
                }
                let ast = match parse_expr(&lit) {
                    Ok(a) => a,
                    Err(e) => fail!("literal-list:harness", "{:?} does not parse: {}", short(&lit), e),
                };
                for w in [None, Some(1usize), Some(12), Some(40), Some(80), Some(200)] {
                    let out = blots_core::formatter::format_expr(&ast, w);
                    let got = Sess::new().probe(&out);
                    if bits_of(&got).as_ref() != Some(&want) {
                        fail!("format-list:changed", "the list {:?} is formatted (width {:?}) as\n{}\nwhich evaluates to {:?}", xs.iter().map(|f| f.0).collect::<Vec<_>>(), w, out, got);
                    }
                }
                Ok(())
            }
            Case::Literal { text, expect, features } => {
                ctx.label(if text.contains("0x") || text.contains("0b") { "radix-literal" } else { "decimal-literal" });
                if *features >= 2 {
                    ctx.nontrivial(crate::engine::hash_str(text));
                }
                let sess = Sess::new();
                match sess.obs(text) {
                    Ok(MV::Num(F(y))) if y.to_bits() == expect.0.to_bits() || (y == 0.0 && expect.0 == 0.0 && y.is_sign_negative() == expect.0.is_sign_negative()) => Ok(()),
                    other => fail!(
                        format!("literal:{}", literal_class(text)),
                        "literal {} evaluates to {:?}; correctly rounded value is {:e} [bits {:016x}]",
                        short(text),
                        other,
                        expect.0,
                        expect.0.to_bits()
                    ),
                }?;
                // the same decimal text read by to_number (plain decimal / exponent spellings)
                if !text.contains('_') && !text.contains("0x") && !text.contains("0b") && !text.starts_with('+') && !text.starts_with('.') {
                    sess.bind("t", &MV::Str(text.clone()));
                    match sess.obs("to_number(t)") {
                        Ok(MV::Num(F(y))) if y.to_bits() == expect.0.to_bits() || (y == 0.0 && expect.0 == 0.0) => {}
                        // to_number may be stricter than the literal grammar about what it accepts
                        Err(_) => {
                            ctx.label("to_number:rejects-spelling");
                        }
                        other => fail!(format!("to_number:{}", literal_class(text)), "to_number({:?}) = {:?}; correctly rounded value is {:e} [bits {:016x}]", short(text), other, expect.0, expect.0.to_bits()),
                    }
                }
                Ok(())
            }
            Case::LiteralOrError { text, expect } => {
                ctx.label("radix-literal>=2^63");
                ctx.nontrivial(crate::engine::hash_str(text));
                let sess = Sess::new();
                match sess.obs(text) {
                    Ok(MV::Num(F(y))) if y.to_bits() == expect.0.to_bits() => Ok(()),
                    Err(_) => Ok(()),
                    other => fail!("literal:radix>=2^63:wrong-value", "literal {} evaluates to {:?}; expected {:e} or an error", short(text), other, expect.0),
                }
            }
        }
    }
}

fn short(t: &str) -> String {
    if t.len() > 120 { format!("{}…({} chars)", &t[..100], t.len()) } else { t.to_string() }
}

fn literal_class(t: &str) -> String {
    if t.contains("0x") {
        return "hex".into();
    }
    if t.contains("0b") {
        return "binary".into();
    }
    let mut f = Vec::new();
    if t.contains('_') {
        f.push("underscore");
    }
    if t.contains('e') || t.contains('E') {
        f.push("exponent");
    }
    if t.starts_with('.') || t.starts_with("-.") || t.starts_with("+.") {
        f.push("leading-dot");
    }
    if t.starts_with('+') {
        f.push("plus");
    }
    if t.len() > 40 {
        f.push("long");
    }
    if f.is_empty() { "decimal:plain".into() } else { format!("decimal:{}", f.join("+")) }
}

/// doubles for the path checks
pub fn path_doubles() -> BoxedStrategy<F> {
    prop_oneof![
        4 => crate::gen_::finite_f64(),
        // integers k and k +- 1 ulp, k +- 2 ulp
        2 => (1i64..1_000_000_000_000_000, -2i64..3, any::<bool>()).prop_map(|(k, d, neg)| {
            let x = f64::from_bits((k as f64).to_bits().wrapping_add(d as u64));
            if neg { -x } else { x }
        }),
        2 => (0u32..5000, -2i64..3).prop_map(|(k, d)| f64::from_bits((k as f64 + if k % 2 == 0 { 0.0 } else { 0.5 }).to_bits().wrapping_add(d as u64))).prop_map(|x| if x.is_finite() { x } else { 1.0 }),
        // decimal products like 4.35 * 100
        1 => (1u32..100000, prop::sample::select(vec![10.0, 100.0, 1000.0, 0.1, 0.01])).prop_map(|(m, s)| (m as f64 / 100.0) * s),
        // printing thresholds
        1 => (-3i64..4, prop::sample::select(vec![1e15, 1e21, 1e16, 1e-5, 1e-7, 1e-4, 9007199254740992.0, 1e22, 1e23])).prop_map(|(d, b): (i64, f64)| f64::from_bits(b.to_bits().wrapping_add(d as u64))),
        1 => (0u64..(1u64 << 52)).prop_map(f64::from_bits),
    ]
    .prop_map(|x| F(if x.is_finite() { x } else { 0.5 }))
    .boxed()
}

/// spellings of the exact decimal value of d >= 0 (finite)
fn spell(d: f64, style: &[u16; 6]) -> (String, u32) {
    let dec = Dec::from_f64(d);
    let mut features = 0u32;
    if dec.is_zero() {
        let forms = ["0", "0.0", ".0", "00", "0e5", "0_0", "0.000e-7", "+0"];
        return (forms[pick_idx(style[0], forms.len())].to_string(), 1);
    }
    let digits = dec.digit_string();
    let n = digits.len() as i64;
    // value = 0.DIGITS * 10^(exp + n); choose where to put the decimal point
    let lead = dec.exp + n; // number of integer digits if positive
    let use_exp = style[0] % 3 != 0 || lead > 30 || lead < -30;
    let (mut int_part, mut frac_part, exponent): (String, String, i64) = if use_exp {
        // point after p digits, 0 <= p <= n, compensating exponent
        let p = pick_idx(style[1], (n as usize).min(20) + 1) as i64;
        features += 1;
        (digits[..p as usize].to_string(), digits[p as usize..].to_string(), lead - p)
    } else if lead <= 0 {
        (String::new(), format!("{}{}", "0".repeat((-lead) as usize), digits), 0)
    } else if lead >= n {
        (format!("{}{}", digits, "0".repeat((lead - n) as usize)), String::new(), 0)
    } else {
        (digits[..lead as usize].to_string(), digits[lead as usize..].to_string(), 0)
    };
    // leading zeros / leading dot
    match style[2] % 4 {
        0 if int_part.is_empty() && !frac_part.is_empty() => {
            features += 1; // leading-dot form
        }
        1 => {
            int_part = format!("00{}", int_part);
            features += 1;
        }
        _ => {
            if int_part.is_empty() {
                int_part = "0".to_string();
            }
        }
    }
    if int_part.is_empty() && frac_part.is_empty() {
        int_part = "0".to_string();
    }
    // underscores in the integer part
    if style[3] % 3 == 0 && int_part.len() >= 2 {
        let cut = 1 + pick_idx(style[4], int_part.len() - 1);
        let us = if style[4] % 2 == 0 { "_" } else { "__" };
        int_part = format!("{}{}{}", &int_part[..cut], us, &int_part[cut..]);
        features += 1;
    }
    // trailing zeros in the fraction
    if style[3] % 5 == 1 && !frac_part.is_empty() {
        frac_part.push_str("000");
    }
    let mut t = int_part;
    if !frac_part.is_empty() {
        t.push('.');
        t.push_str(&frac_part);
    }
    if use_exp || style[5] % 7 == 0 {
        let e = if style[5] % 2 == 0 { 'e' } else { 'E' };
        let sign = if exponent < 0 { "-" } else if style[5] % 3 == 0 { "+" } else { "" };
        if style[5] % 2 == 1 || sign == "+" {
            features += 1;
        }
        t.push(e);
        t.push_str(sign);
        t.push_str(&exponent.abs().to_string());
    }
    if style[2] % 5 == 4 && !t.starts_with('.') {
        // the grammar admits a sign only before integer digits, not before the leading-dot form
        t = format!("+{}", t);
        features += 1;
    }
    (t, features)
}

fn decimal_literals() -> BoxedStrategy<Case> {
    let d = prop_oneof![
        3 => crate::gen_::finite_f64().prop_map(|x| x.abs()),
        2 => (1u64..(1 << 53), -60i32..40).prop_map(|(m, e)| m as f64 * 10f64.powi(e)),
        // whole numbers beyond 2^54, whose midpoints are whole numbers as well
        1 => (1u64..(1 << 53), 2u32..300).prop_map(|(m, e)| m as f64 * 2f64.powi(e as i32)),
        1 => (0u32..2000).prop_map(|k| k as f64 / 8.0),
    ];
    (d, any::<[u16; 6]>(), 0u8..4)
        .prop_map(|(d, style, kind)| {
            let d = if d.is_finite() { d } else { 1.5 };
            match kind {
                // the exact value in some spelling
                0 | 1 => {
                    let (text, features) = spell(d, &style);
                    Case::Literal { text, expect: F(d), features }
                }
                // exact midpoint between d and its successor: ties to even
                2 => {
                    let up = next_up(d);
                    if !up.is_finite() || d == 0.0 {
                        let (text, features) = spell(d, &style);
                        return Case::Literal { text, expect: F(d), features };
                    }
                    let mid = Dec::from_f64(d).add(&Dec::from_f64(up)).half();
                    let even = if d.to_bits() & 1 == 0 { d } else { up };
                    Case::Literal { text: mid_text(&mid, 0), expect: F(even), features: 2 }
                }
                // just above / just below the midpoint
                _ => {
                    let up = next_up(d);
                    if !up.is_finite() || d == 0.0 {
                        let (text, features) = spell(d, &style);
                        return Case::Literal { text, expect: F(d), features };
                    }
                    let mid = Dec::from_f64(d).add(&Dec::from_f64(up)).half();
                    if style[0] % 2 == 0 {
                        Case::Literal { text: mid_text(&mid, 1), expect: F(up), features: 2 }
                    } else {
                        Case::Literal { text: mid_text(&mid, -1), expect: F(d), features: 2 }
                    }
                }
            }
        })
        .boxed()
}

/// digits of the midpoint as `D.DDDDe<E>`; nudge = +1 / -1 moves it by 10^-25 of its leading
/// digit's place first (far less than half an ulp, whatever trailing zeros the midpoint has)
fn mid_text(mid: &Dec, nudge: i32) -> String {
    let lead = mid.exp + mid.digit_string().len() as i64 - 1;
    let tiny = Dec::pow10(lead - 25);
    let m = match nudge {
        1 => mid.add(&tiny),
        -1 => mid.sub(&tiny),
        _ => mid.clone(),
    };
    let ds = m.digit_string();
    let exp = m.exp + ds.len() as i64 - 1;
    if ds.len() == 1 { format!("{}e{}", ds, exp) } else { format!("{}.{}e{}", &ds[..1], &ds[1..], exp) }
}

/// short mantissas (1..19 digits) with large positive or negative exponents, point anywhere:
/// the texts a fast path with an "exact small case" would take; reference = Rust's own
/// correctly rounded parser on the same text
fn short_mantissa_literals() -> BoxedStrategy<Case> {
    (1u64..10_000_000_000_000_000_000, 1usize..20, prop_oneof![-330i32..-20, 20i32..310, -25i32..25], 0usize..20, any::<bool>())
        .prop_map(|(m, digits, e, point, upper)| {
            let mut ds = m.to_string();
            ds.truncate(digits.max(1));
            let p = point.min(ds.len());
            let mant = if p == 0 || p == ds.len() { ds.clone() } else { format!("{}.{}", &ds[..p], &ds[p..]) };
            let text = format!("{}{}{}", mant, if upper { 'E' } else { 'e' }, e);
            let expect: f64 = text.parse().unwrap_or(f64::INFINITY);
            if expect.is_finite() { Case::Literal { text, expect: F(expect), features: 2 } } else { Case::Literal { text: "1e3".into(), expect: F(1000.0), features: 2 } }
        })
        .boxed()
}

fn radix_literals() -> BoxedStrategy<Case> {
    (any::<u64>(), 1u32..65, any::<bool>(), any::<[u16; 3]>(), 0u8..3)
        .prop_map(|(bits, width, hex, style, sign)| {
            let v: u64 = if width >= 64 { bits } else { bits & ((1u64 << width) - 1) };
            // force the top bit of the chosen width so long literals stay long
            let v = if width >= 64 { v | (1 << 63) } else if style[0] % 2 == 0 { v | (1u64 << (width - 1)) } else { v };
            let mut digits = if hex {
                if style[1] % 2 == 0 { format!("{:x}", v) } else { format!("{:X}", v) }
            } else {
                format!("{:b}", v)
            };
            if style[1] % 3 == 0 {
                digits = format!("00{}", digits);
            }
            if style[2] % 2 == 0 && digits.len() >= 2 {
                let cut = 1 + pick_idx(style[2], digits.len() - 1);
                digits = format!("{}_{}", &digits[..cut], &digits[cut..]);
            }
            let prefix = if hex { "0x" } else { "0b" };
            let (sg, mult) = match sign {
                0 => ("", 1.0),
                1 => ("-", -1.0),
                _ => ("+", 1.0),
            };
            let text = format!("{}{}{}", sg, prefix, digits);
            let expect = F(mult * (v as f64));
            if v >= (1u64 << 63) { Case::LiteralOrError { text, expect } } else { Case::Literal { text, expect, features: 2 } }
        })
        .boxed()
}

pub fn run(ctx: &mut Ctx) {
    let pool: Vec<Case> = crate::gen_::BOUNDARY_F64.iter().flat_map(|x| [Case::Paths(F(*x)), Case::Paths(F(-*x))]).collect();
    ctx.run_enum(&Numbers, pool.into_iter(), false);
    // fixed literal examples from the documentation of the literal forms
    let fixed: Vec<(&str, f64)> = vec![
        ("1_000_000", 1e6),
        ("1e3", 1000.0),
        ("1E3", 1000.0),
        (".5", 0.5),
        ("0xFF", 255.0),
        ("0xff", 255.0),
        ("0b1010", 10.0),
        ("0b1111_0000", 240.0),
        ("0xDEAD_BEEF", 3735928559.0),
        ("1.5e-3", 0.0015),
        ("1__0", 10.0),
        ("0.1", 0.1),
        ("123456789012345678901234567890", 1.2345678901234568e29),
        ("0x7fffffffffffffff", 9223372036854775807.0),
        ("0x20000000000001", 9007199254740993u64 as f64),
        ("9007199254740993", 9007199254740992.0),
        ("9007199254740995", 9007199254740996.0),
        ("2.2250738585072011e-308", 2.2250738585072011e-308),
        ("4.9e-324", 5e-324),
        ("2.4703282292062327e-324", 0.0),
        ("2.4703282292062328e-324", 5e-324),
        ("1.7976931348623157e308", f64::MAX),
    ];
    ctx.run_enum(
        &Numbers,
        fixed.into_iter().map(|(t, v)| Case::Literal { text: t.to_string(), expect: F(v), features: 2 }),
        false,
    );
    // midpoints between large doubles are whole numbers, often ending in zeros
    let mut mids = Vec::new();
    for d in [1759343248289999872.0f64, 18014398509481984.0, 1e18, 1e22, 1.2e24, 9.5e29, 2f64.powi(80), 3e200] {
        let up = next_up(d);
        let mid = Dec::from_f64(d).add(&Dec::from_f64(up)).half();
        mids.push(Case::Literal { text: mid_text(&mid, 1), expect: F(up), features: 2 });
        mids.push(Case::Literal { text: mid_text(&mid, -1), expect: F(d), features: 2 });
        mids.push(Case::Literal { text: mid_text(&mid, 0), expect: F(if d.to_bits() & 1 == 0 { d } else { up }), features: 2 });
    }
    ctx.run_enum(&Numbers, mids.into_iter(), false);
    ctx.run_random(&Numbers, path_doubles().prop_map(Case::Paths), ctx.tier.pick(60_000, 2_000_000));
    // numbers as list items: runs with a constant step (whole, fractional, from -0), and random lists
    let mut lists = Vec::new();
    for start in [0.0f64, -0.0, 0.5, -7.25, 1.0, 3.0, 1e15, 0.1, -16.0, 9007199254740980.0] {
        for step in [1.0f64, 0.5, -1.0, 2.0] {
            for len in [2usize, 15, 16, 17, 20, 33] {
                lists.push(Case::Lists((0..len).map(|i| F(start + step * i as f64)).collect()));
            }
        }
    }
    for big in [1e100f64, 1.5e300, 1e21, 123456789012345680000.0, 5e-324, 1.5e-300, 1e-7] {
        for at in [0usize, 1, 2, 5, 11] {
            for len in [3usize, 6, 12, 30] {
                if at < len {
                    lists.push(Case::Lists((0..len).map(|i| if i == at { F(big) } else { F(i as f64 + 1.0) }).collect()));
                }
            }
        }
    }
    ctx.run_enum(&Numbers, lists.into_iter(), false);
    ctx.run_random(&Numbers, prop::collection::vec(prop_oneof![3 => path_doubles(), 1 => crate::gen_::small_f64().prop_map(F)], 2..40).prop_map(Case::Lists), ctx.tier.pick(4_000, 100_000));
    ctx.run_random(&Numbers, decimal_literals(), ctx.tier.pick(40_000, 1_200_000));
    ctx.run_random(&Numbers, radix_literals(), ctx.tier.pick(20_000, 600_000));
    ctx.run_random(&Numbers, short_mantissa_literals(), ctx.tier.pick(40_000, 1_200_000));
}
