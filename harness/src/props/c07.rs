//! C07 — the formatter preserves program meaning.

use super::fmt::{self, Case};
use crate::engine::{Check, Ctx, Outcome, hash_str};
use crate::fail;

pub const RULE: &str = "generated programs (1-6 statements, every node kind, operators, output forms) rendered with random admissible layout, comments at the positions C09 lists and 0-5 blank lines, parsed by the real parser (the parsed AST is the program); formatted at widths {1,2,5,10,20,30,40,60,80(default),100,120,random} through format_expr per statement and through the WASM driver loop (hook H1), and 8% through `blots --format` (to a fresh path, over a longer earlier file, or in place); the output must parse to the same number and kinds of statements with equal ASTs modulo comment attachment. Also enumerated parent/child/position shapes. Non-trivial = a statement of depth >= 3 containing a compound operand; distinct by (program text, width).";
pub const ASSUMPTIONS: &[&str] = &[
    "texts the real parser rejects are discarded and counted (generator unhealthy above 5%)",
    "AST equality is blots-core's PartialEq (spans ignored) after erasing comment attachments",
];

pub struct Meaning;

impl Check for Meaning {
    type Case = Case;
    fn name(&self) -> &'static str {
        "meaning"
    }
    fn journal(&self) -> bool {
        true
    }
    fn run(&self, c: &Case, ctx: &mut Ctx) -> Outcome {
        let r = fmt::render(c, true);
        let stmts = match fmt::parse_c(&r.text) {
            Ok(s) => s,
            Err(e) => {
                if c.text.is_some() {
                    fail!("given-text-rejected", "the parser rejects a regression program: {}\n{}", e.lines().take(4).collect::<Vec<_>>().join(" | "), r.text);
                }
                if std::env::var("BV_DISCARD_AS_FAIL").is_ok() {
                    fail!("discard", "generated text rejected: {}\n{}", e.lines().take(4).collect::<Vec<_>>().join(" | "), r.text);
                }
                ctx.discard();
                ctx.note(format!("discarded (parser rejects generated text): {:?}", r.text.chars().take(200).collect::<String>()));
                return Ok(());
            }
        };
        let want: Vec<_> = stmts.iter().map(|s| fmt::stmt_core(&s.stmt)).collect();
        if c.prog.iter().any(|e| e.depth() >= 3) {
            ctx.nontrivial(hash_str(&format!("{}|{}", r.text, c.width)));
        }
        ctx.label(match c.width {
            0..=10 => "width<=10",
            11..=40 => "width 11..40",
            41..=80 => "width 41..80",
            _ => "width>80",
        });
        // library driver, per statement
        for (s, w) in stmts.iter().zip(&want) {
            let Some(e) = s.stmt.for_format() else { continue };
            let out = blots_core::formatter::format_expr(&e, fmt::width_opt(c.width));
            let back = match fmt::parse_c(&out) {
                Ok(b) => b,
                Err(err) => fail!(
                    format!("library:unparseable:{}", fmt::unparseable_class(&out)),
                    "format_expr output does not parse (width {}):\n{}\n--- error: {}\n--- input statement of:\n{}",
                    c.width,
                    out,
                    err.lines().next().unwrap_or(""),
                    r.text
                ),
            };
            let got: Vec<_> = back.iter().filter_map(|b| fmt::stmt_core(&b.stmt)).collect();
            if got.len() != 1 {
                fail!("library:statement-count", "one statement formats to {} statements:\n{}", got.len(), out);
            }
            if let Some(d) = fmt::diff_sig(w.as_ref().unwrap(), &got[0]) {
                fail!(format!("library:changed:{}", d), "format_expr changed the program (width {}): first difference at {}\n--- output:\n{}\n--- input:\n{}", c.width, d, out, r.text);
            }
        }
        // WASM driver, whole program
        if let Some(out) = fmt::format_wasm(&r.text, c.width) {
            ctx.label("wasm-driver");
            check_whole("wasm", &out, &want, &stmts, &r.text, c.width)?;
        }
        // closed programs: the formatted program evaluates like the original
        if c.typed {
            if let Some(out) = fmt::format_wasm(&r.text, c.width) {
                ctx.label("evaluated-before-and-after");
                let run = |text: &str| -> Result<Vec<crate::blots::Obs>, String> {
                    let s = crate::blots::Sess::new();
                    s.set_inputs(&[]);
                    s.run_program(text)
                };
                let (a, b) = (run(&r.text), run(&out));
                let same = match (&a, &b) {
                    (Ok(x), Ok(y)) => {
                        x.len() == y.len()
                            && x.iter().zip(y).all(|(p, q)| match (p, q) {
                                (Ok(crate::model::MV::Fn(_)), Ok(crate::model::MV::Fn(_))) => true,
                                (Ok(u), Ok(v)) => u.same_nanclass(v),
                                (Err(_), Err(_)) => true,
                                _ => false,
                            })
                    }
                    (Err(_), Err(_)) => true,
                    _ => false,
                };
                if !same {
                    fail!("evaluation-differs", "the formatted program evaluates differently (width {}):\n--- original results: {:?}\n--- formatted results: {:?}\n--- formatted:\n{}\n--- source:\n{}", c.width, a, b, out, r.text);
                }
            }
        }
        if c.cli {
            ctx.label("cli-driver");
            match fmt::format_cli(ctx, &r.text) {
                Ok(out) => check_whole("cli", &out, &want, &stmts, &r.text, 80)?,
                Err(e) => fail!("cli:format-failed", "blots --format failed on a program the parser accepts: {}\n{}", e, r.text),
            }
        }
        Ok(())
    }
}

fn check_whole(
    driver: &str,
    out: &str,
    want: &[Option<blots_core::ast::SpannedExpr>],
    stmts: &[crate::blots::ParsedStmt],
    input: &str,
    width: u16,
) -> Outcome {
    let back = match fmt::parse_c(out) {
        Ok(b) => b,
        Err(err) => fail!(
            format!("{}:unparseable:{}", driver, fmt::unparseable_class(out)),
            "{} driver output does not parse (width {}):\n{}\n--- error: {}\n--- input:\n{}",
            driver,
            width,
            out,
            err.lines().next().unwrap_or(""),
            input
        ),
    };
    let got: Vec<_> = back.iter().filter_map(|b| fmt::stmt_core(&b.stmt)).collect();
    let want_e: Vec<_> = want.iter().flatten().collect();
    if got.len() != want_e.len() {
        fail!(format!("{}:statement-count", driver), "{} statements became {}:\n{}\n--- input:\n{}", want_e.len(), got.len(), out, input);
    }
    let kinds_in: Vec<bool> = stmts.iter().filter(|s| s.stmt.expr().is_some()).map(|s| matches!(s.stmt, crate::blots::Stmt::Output(_))).collect();
    let kinds_out: Vec<bool> = back.iter().filter(|s| s.stmt.expr().is_some()).map(|s| matches!(s.stmt, crate::blots::Stmt::Output(_))).collect();
    if kinds_in != kinds_out {
        fail!(format!("{}:statement-kind", driver), "statement kinds changed:\n{}", out);
    }
    for (w, g) in want_e.iter().zip(&got) {
        if let Some(d) = fmt::diff_sig(w, g) {
            fail!(format!("{}:changed:{}", driver, d), "{} driver changed the program (width {}): first difference at {}\n--- output:\n{}\n--- input:\n{}", driver, width, d, out, input);
        }
    }
    Ok(())
}

/// one construct nested far deeper than the random generator goes, around a small commented
/// payload: every level is laid out on lines of its own at narrow widths, so the payload ends
/// up indented by hundreds of columns
pub fn deep_texts() -> Vec<Case> {
    let mut v = Vec::new();
    let payloads = ["[1, // one\n 2, 3]", "{a: 1, // first\n b: 2}", "[1, 2, 3]", "do {\n  // note\n  t = [1, // one\n 2]\n  return t\n}"];
    let shells: &[(&str, &str)] = &[("[", "]"), ("{k: ", "}"), ("[0, ", "]"), ("(q => ", ")"), ("if true then ", " else 0"), ("do {\n return ", "\n}"), ("idf(", ")"), ("[{k: ", "}]")];
    for depth in [30usize, 60, 85, 110] {
        for (open, close) in shells {
            for payload in payloads {
                let mut t = String::from("x = ");
                for _ in 0..depth {
                    t.push_str(open);
                }
                t.push_str(payload);
                for _ in 0..depth {
                    t.push_str(close);
                }
                t.push('\n');
                for width in [1u16, 40, 80, 200] {
                    v.push(Case { prog: vec![], layout: vec![], width, cli: false, text: Some(t.clone()), typed: false });
                }
            }
        }
    }
    v
}

pub fn run(ctx: &mut Ctx) {
    ctx.run_enum(&Meaning, deep_texts().into_iter(), false);
    ctx.run_random(&Meaning, fmt::strategy(5, 4), ctx.tier.pick(30_000, 500_000));
    ctx.run_random(&Meaning, fmt::strategy(2, 7), ctx.tier.pick(10_000, 200_000));
    ctx.run_random(&Meaning, fmt::typed_strategy(), ctx.tier.pick(10_000, 200_000));
    // programs dominated by nested lambdas (curried, applied, do-block / conditional / list bodies)
    ctx.run_random(&Meaning, fmt::lambda_heavy_strategy(), ctx.tier.pick(6_000, 120_000));
}
