//! C18 — runaway recursion ends in a call-depth error, never in a crash.

use crate::engine::proc::{Limits, run as run_proc};
use crate::engine::{Check, Ctx, Outcome, hash_str};
use crate::fail;
use crate::model::{MV, json};
use proptest::prelude::*;
use serde::{Deserialize, Serialize};

pub const RULE: &str = "programs from a recursion grammar: shape in {self, mutual (2 and 3 functions), via / where / map / filter / reduce callback, the callee handed straight to into / where / element-wise via (no call expression in the cycle), do-block body (also with a captured name and a helper defined after its user), anonymous cycle through a record method / a list element / self-application, a named function made in a factory's do-block and used after the block has ended, the recursive call as a do-block statement whose value is not used} x per-call expression nesting 1..32 of kind {arithmetic chain, list nesting, record nesting, conditionals, call-argument nesting, mixture, field / index access under ??, operand of a record / list / argument spread, right operand of and / or / && whose left operand already decides}, each also in a source that starts with a non-ASCII comment, x {unbounded, bounded with depth 100..900 for plain shapes, bounded with depth 1100..6000 - deeper than the limit of 1000 nested calls, which must stop it}, the recursive call also as a tail call (the whole branch of the body's conditional: `if n <= 0 then 0 else f(n - 1)`, runaway `if n < 0 then n else f(n + 1)`), bare and wrapped; enumerated: every shape x nesting {1, 2, 4, 8} x 2 kinds (runaway and 200-300 deep) and nesting {16, 24, 32} x all kinds (runaway; 900 deep for plain shapes); random beyond that; single-line shapes are also typed statement by statement into the interactive CLI on a pseudo-terminal (same 8 MiB stack limit). Each is run in the release `blots` binary built from the working tree with RLIMIT_STACK = 8 MiB (the default main-thread stack), RLIMIT_AS 6 GiB and a 60 s timeout. Unbounded programs must exit with status 1 and report `maximum call depth`; a signal or exit 101 is a violation. Bounded programs up to 900 deep must exit 0 with the arithmetically expected value; bounded programs deeper than 1000 must report the depth error like unbounded ones (a recursion that completes beyond the limit means that an unbounded one of that shape never ends). Work (in-process, enumerated): linear recursions of shape {self, mutual, do-block body, record method} returning a value of type {number, null, list, record, string, boolean, empty list, function} through each of 24 value-preserving forms around the recursive call (left / right operand of ??, list / record / spread / computed-key wrap and unwrap, conditional branches, identity call / into / via / map / where / reduce, applied lambdas with plain / optional / rest parameter, do-block local) must return that value and make a number of function calls linear in the depth (depths 4, 8, 12, 16). Non-trivial = per-call nesting >= 2 or a callback / mutual / anonymous shape, or a work case; distinct by program text.";
pub const ASSUMPTIONS: &[&str] = &[
    "the real binary decides crashes, depth errors and completion; a timeout or memory-limit hit is counted as inconclusive, never as a violation",
    "work: 'completes normally' for recursion a few hundred calls deep presupposes that a recursion making one recursive call per level does work proportional to its depth; this is decided in-process without a clock by counting the function calls the evaluator records (get_function_call_stats) at depths 4, 8, 12, 16 - more than six times the linear extrapolation from depth 4 is reported as super-linear work (an operand evaluated twice per level gives 2^depth)",
    "error-swallowing sort_by callbacks are excluded (they turn runaway recursion into exponential work and are not in the statement's list)",
];

#[derive(Clone, Debug, Serialize, Deserialize)]
pub struct Case {
    /// 0 self, 1 mutual2, 2 mutual3, 3 via, 4 where, 5 map, 6 filter, 7 reduce, 8 do-block, 9 record method, 10 list element, 11 self-application
    pub shape: u8,
    pub nesting: u8,
    /// 0 arithmetic, 1 list, 2 record, 3 conditional, 4 call argument, 5 mixture, 6 / 7 access under ??; 8.. = 0.. after a non-ASCII header comment
    pub kind: u8,
    /// Some(depth): bounded variant
    pub bounded: Option<u16>,
    /// typed line by line into the interactive CLI on a pseudo-terminal instead of run as a file
    #[serde(default)]
    pub repl: bool,
    /// the recursive call is the whole branch of the body's conditional (a tail call): `if n <= 0 then 0 else f(n - 1)`,
    /// runaway form `if n < 0 then n else f(n + 1)`
    #[serde(default)]
    pub tail: bool,
}

pub struct Recursion;

/// wrap `inner` in `nesting` levels of expression nesting; returns (text, how much each level adds)
fn wrap(inner: &str, nesting: u8, kind: u8) -> (String, u32) {
    let mut s = inner.to_string();
    let mut adds = 0;
    for level in 0..nesting {
        let k = if kind == 5 { level % 5 } else if (8..16).contains(&kind) { kind - 8 } else { kind };
        s = match k {
            0 => {
                adds += 1;
                format!("1 + ({})", s)
            }
            1 => format!("[{}][0]", s),
            2 => format!("{{a: {}}}.a", s),
            3 => format!("(if true then {} else 0)", s),
            // an access that is the left operand of `??`
            6 => format!("({{a: {}}}.a ?? 0)", s),
            7 => format!("([{}][0] ?? 0)", s),
            // the recursive call is the operand of a spread: in a record, a list, an argument list
            16 => format!("{{...{{a: {}}}}}.a", s),
            17 => format!("[...[{}]][0]", s),
            18 => format!("idf(...[{}])", s),
            // the recursive call is the right operand of a boolean operator whose left operand
            // already decides the result: both operands are evaluated all the same
            19 => format!("(if false and ({}) == 0 then 0 else 0)", s),
            20 => format!("(if true or ({}) == 0 then 0 else 0)", s),
            21 => format!("(if false && ({}) == 0 then 0 else 0)", s),
            _ => format!("idf({})", s),
        };
    }
    (s, adds)
}

pub fn program(c: &Case) -> (String, Option<f64>) {
    let step = |callee: &str| match c.bounded {
        Some(_) => format!("{}(n - 1)", callee),
        None => format!("{}(n + 1)", callee),
    };
    let rec_call = |callee: &str| -> String {
        match c.shape {
            3 => format!("([{}] via {})[0]", if c.bounded.is_some() { "n - 1" } else { "n + 1" }, callee),
            4 => format!("len([{}] where (x => {}(x) .== 0 or true))", if c.bounded.is_some() { "n - 1" } else { "n + 1" }, callee),
            5 => format!("map([{}], {})[0]", if c.bounded.is_some() { "n - 1" } else { "n + 1" }, callee),
            6 => format!("len(filter([{}], x => {}(x) .== 0 or true))", if c.bounded.is_some() { "n - 1" } else { "n + 1" }, callee),
            7 => format!("reduce([{}], (acc, x) => {}(x), 0)", if c.bounded.is_some() { "n - 1" } else { "n + 1" }, callee),
            // the callee handed straight to the operator: no call expression anywhere in the cycle
            12 => format!("(({}) into {})", if c.bounded.is_some() { "n - 1" } else { "n + 1" }, callee),
            13 if c.bounded.is_none() => format!("len([n + 1] where {})", callee),
            // element-wise via: a list of values against a list of functions
            14 => format!("([{}] via [{}])[0]", if c.bounded.is_some() { "n - 1" } else { "n + 1" }, callee),
            13 => format!("len([n - 1] where (x => {}(x) .== 0 or true))", callee),
            _ => step(callee),
        }
    };
    let body = |callee: &str| -> (String, u32) {
        let (w, adds) = wrap(&rec_call(callee), c.nesting, c.kind);
        match c.bounded {
            Some(_) if c.tail => (format!("if n <= 0 then 0 else {}", w), adds),
            Some(_) => (format!("if n <= 0 then 0 else 1 + ({})", w), adds + 1),
            None if c.tail => (format!("if n < 0 then n else {}", w), adds),
            None => (w, adds),
        }
    };
    // kinds 8.. are kinds 0.. in a source that starts with a non-ASCII comment (byte offsets and
    // character offsets of the call sites differ)
    let mut src = if (8..16).contains(&c.kind) { String::from("// 再帰の深さを数える — считаем глубину рекурсии — βάθος\nidf = q => q\n") } else { String::from("idf = q => q\n") };
    let start = c.bounded.map(|d| d as i64).unwrap_or(0);
    let mut per_level = 1;
    match c.shape {
        1 => {
            let (b1, a) = body("g");
            let (b2, _) = body("f");
            per_level = a;
            src.push_str(&format!("f = n => {}\ng = n => {}\noutput r = f({})\n", b1, b2, start));
        }
        2 => {
            let (b1, a) = body("g");
            let (b2, _) = body("h");
            let (b3, _) = body("f");
            per_level = a;
            src.push_str(&format!("f = n => {}\ng = n => {}\nh = n => {}\noutput r = f({})\n", b1, b2, b3, start));
        }
        8 => {
            let (b, a) = body("f");
            per_level = a;
            src.push_str(&format!("f = n => do {{\n  m = n\n  n = m\n  return {}\n}}\noutput r = f({})\n", b, start));
        }
        15 => {
            // three scopes per call (captured k0, parameters, do-block) and a helper that is
            // defined after the function that uses it
            let (b, a) = body("f");
            per_level = a;
            src.push_str(&format!("k0 = 0\nf = n => do {{\n  m = n + k0\n  return later({})\n}}\nlater = q => q\noutput r = f({})\n", b.replace("n + 1", "m + 1").replace("n - 1", "m - 1").replace("n <= 0", "m <= 0"), start));
        }
        16 => {
            // a named function made inside a do-block of a factory, used after the block has ended
            let (b, a) = body("loop_fn");
            per_level = a;
            src.push_str(&format!("mk = () => do {{\n  loop_fn = n => {}\n  return loop_fn\n}}\noutput r = mk()({})\n", b, start));
        }
        17 => {
            // the recursive call is a statement of a do-block whose value is not used
            let (b, a) = body("f");
            per_level = a;
            match c.bounded {
                None => src.push_str(&format!("f = n => do {{\n  {}\n  return n\n}}\noutput r = f({})\n", b, start)),
                Some(_) => src.push_str(&format!("f = n => do {{\n  0\n  \"unused\"\n  return {}\n}}\noutput r = f({})\n", b, start)),
            }
        }
        9 => {
            let (b, a) = body("counter.next");
            per_level = a;
            src.push_str(&format!("counter = {{next: n => {}}}\noutput r = counter.next({})\n", b, start));
        }
        10 => {
            let (b, a) = body("fs[0]");
            per_level = a;
            src.push_str(&format!("fs = [n => {}]\noutput r = fs[0]({})\n", b, start));
        }
        11 => {
            // self-application: (g => n => BODY(g(g)(n+1)))
            let (b, a) = body("g(g)");
            per_level = a;
            src.push_str(&format!("w = g => (n => {})\noutput r = w(w)({})\n", b, start));
        }
        _ => {
            let (b, a) = body("f");
            per_level = a;
            src.push_str(&format!("f = n => {}\noutput r = f({})\n", b, start));
        }
    }
    let expected = c.bounded.map(|d| {
        // where / filter shapes return len(..) = 1 per level instead of the recursive value
        match c.shape {
            4 | 6 | 13 => {
                if d == 0 {
                    0.0
                } else {
                    // value = 1 + wrap(len([..])) = 1 + adds_from_wrap + 1
                    (per_level as f64) + 1.0
                }
            }
            _ => d as f64 * per_level as f64,
        }
    });
    (src, expected)
}

impl Check for Recursion {
    type Case = Case;
    fn name(&self) -> &'static str {
        "recursion"
    }
    fn run(&self, c: &Case, ctx: &mut Ctx) -> Outcome {
        let (src, expected) = program(c);
        let shape = ["self", "mutual2", "mutual3", "via", "where", "map", "filter", "reduce", "do-block", "record-method", "list-element", "self-application", "into", "where-direct", "zip-via", "late-helper-do-block", "escaped-do-block-function", "bare-do-block-statement"][c.shape as usize % 18];
        let bucket = match c.nesting {
            0..=1 => "nesting1",
            2..=4 => "nesting2-4",
            5..=12 => "nesting5-12",
            _ => "nesting13-32",
        };
        ctx.label(shape);
        ctx.label(bucket);
        ctx.label(match c.bounded { Some(d) if d > 1000 => "bounded-beyond-the-limit", Some(_) => "bounded", None => "unbounded" });
        if c.tail {
            ctx.label("tail-call");
        }
        if c.nesting >= 2 || c.shape != 0 {
            ctx.nontrivial(hash_str(&src));
        }
        if c.repl {
            return self.repl(c, &src, shape, bucket, ctx);
        }
        let dir = crate::engine::proc::scratch_dir("c18");
        let p = format!("{}/r.blots", dir);
        std::fs::write(&p, &src).unwrap();
        let lim = Limits { mem_bytes: 6 << 30, stack_bytes: 8 << 20, timeout: std::time::Duration::from_secs(40) };
        let r = run_proc(&ctx.cli_path, &[p.clone()], None, None, &lim);
        let _ = std::fs::remove_dir_all(&dir);
        let r = match r {
            Ok(r) => r,
            Err(e) => fail!("spawn", "{}", e),
        };
        if r.timed_out {
            ctx.note(format!("timeout (inconclusive): {} {} {}", shape, bucket, if c.bounded.is_some() { "bounded" } else { "unbounded" }));
            ctx.label("resource-inconclusive");
            return Ok(());
        }
        let kind = if c.bounded.is_some() { "bounded" } else { "unbounded" };
        if let Some(sig) = r.signal {
            fail!(format!("{}:{}:{}:signal{}", kind, shape, bucket, sig), "the CLI was killed by signal {} (native stack overflow) instead of reporting the call-depth error\n--- program:\n{}--- stderr: {}", sig, src, r.stderr.chars().take(300).collect::<String>());
        }
        if r.code == Some(101) || r.code.map(|c| c > 1).unwrap_or(false) {
            fail!(format!("{}:{}:{}:exit{}", kind, shape, bucket, r.code.unwrap()), "the CLI exited with {}\n--- program:\n{}--- stderr: {}", r.describe(), src, r.stderr.chars().take(300).collect::<String>());
        }
        // a recursion that would nest deeper than the limit of 1000 calls must be stopped by it
        let expected = if c.bounded.map(|d| d > 1000).unwrap_or(false) { None } else { expected };
        match expected {
            None => {
                if r.code != Some(1) || !(r.stdout.contains("maximum call depth") || r.stderr.contains("maximum call depth")) {
                    fail!(format!("{}:{}:{}:no-depth-error", if c.bounded.is_some() { "beyond-limit" } else { "unbounded" }, shape, bucket), "expected exit 1 with 'maximum call depth'; got {} stdout {:?} stderr {:?}\n--- program:\n{}", r.describe(), r.stdout.chars().take(300).collect::<String>(), r.stderr.chars().take(200).collect::<String>(), src);
                }
                Ok(())
            }
            Some(v) => {
                if r.code != Some(0) {
                    fail!(format!("bounded:{}:{}:fails", shape, bucket), "recursion {} calls deep should complete, got {}: {}\n--- program:\n{}", c.bounded.unwrap(), r.describe(), r.stdout.chars().take(300).collect::<String>(), src);
                }
                match json::parse(r.stdout.trim()) {
                    Ok(MV::Rec(f)) if f.len() == 1 && matches!(&f[0].1, MV::Num(x) if x.0 == v) => Ok(()),
                    other => fail!(format!("bounded:{}:{}:wrong-value", shape, bucket), "expected r = {}, got {:?}\n--- program:\n{}", v, other, src),
                }
            }
        }
    }
}

impl Recursion {
    /// the interactive mode of the CLI: one statement per line on a pseudo-terminal
    fn repl(&self, c: &Case, src: &str, shape: &str, bucket: &str, ctx: &mut Ctx) -> Outcome {
        ctx.label("interactive-repl");
        let lines: Vec<String> = src.lines().map(|l| l.strip_prefix("output ").unwrap_or(l).to_string()).collect();
        let lim = Limits { mem_bytes: 6 << 30, stack_bytes: 8 << 20, timeout: std::time::Duration::from_secs(40) };
        let r = match crate::engine::proc::run_pty(&ctx.cli_path, &lines, &lim) {
            Ok(r) => r,
            Err(e) => fail!("spawn-pty", "{}", e),
        };
        if r.timed_out {
            ctx.note(format!("timeout (inconclusive): repl {} {}", shape, bucket));
            ctx.label("resource-inconclusive");
            return Ok(());
        }
        let kind = if c.bounded.is_some() { "bounded" } else { "unbounded" };
        let tail: String = r.stdout.chars().rev().take(400).collect::<String>().chars().rev().collect();
        if let Some(sig) = r.signal {
            fail!(format!("repl:{}:{}:{}:signal{}", kind, shape, bucket, sig), "the interactive CLI was killed by signal {} while evaluating\n{}--- end of its output: {:?}", sig, src, tail);
        }
        if r.code != Some(0) {
            fail!(format!("repl:{}:{}:{}:exit{}", kind, shape, bucket, r.code.unwrap_or(-1)), "the interactive CLI exited with {} on\n{}--- end of its output: {:?}", r.describe(), src, tail);
        }
        let depth_error = r.stdout.contains("maximum call depth");
        match c.bounded {
            None if !depth_error => fail!(format!("repl:unbounded:{}:{}:no-depth-error", shape, bucket), "no 'maximum call depth' error in the session\n{}--- output: {:?}", src, tail),
            Some(_) if depth_error => fail!(format!("repl:bounded:{}:{}:depth-error", shape, bucket), "recursion {} deep reported the call-depth error\n{}--- output: {:?}", c.bounded.unwrap(), src, tail),
            _ => Ok(()),
        }
    }
}

/// "completes normally" decided by counting work instead of watching a clock: a *linear*
/// recursion (every level makes exactly one recursive call) whose result is handed back through a
/// value-preserving form must make a number of function calls that grows linearly with its depth.
#[derive(Clone, Debug, Serialize, Deserialize)]
pub struct WorkCase {
    /// type of the value that travels back up: 0 number, 1 null, 2 list, 3 record, 4 string, 5 boolean, 6 empty list, 7 function
    pub ret: u8,
    /// the value-preserving form around the recursive call
    pub pass: u8,
    /// 0 self, 1 mutual (2 functions), 2 do-block body, 3 record method
    pub shape: u8,
}

pub struct Work;

pub const PASS_FORMS: usize = 24;
/// forms that preserve values of one type only (operators with a neutral operand, comparisons whose
/// branches both give the value back); `X` stands for the recursive call, `B` for the base value
pub fn typed_forms(ret: u8) -> Vec<&'static str> {
    let mut v = vec!["(if X .== B then B else B)", "(if X .!= B then B else B)", "(if B .== X then B else B)", "[X .== B, B][1]", "(if ugte(X, B) then B else B)", "(if ult(B, X) then B else B)"];
    match ret % 8 {
        0 => v.extend(["(X + 0)", "(0 + X)", "(X - 0)", "(X * 1)", "(1 * X)", "(X / 1)", "(X ^ 1)", "(X % 100)", "(-(-X))", "(if X < 100 then B else B)", "(if X <= 7 then B else B)", "(if X > 100 then B else B)", "(if X >= 7 then B else B)", "(if X == 7 then B else B)", "(if X != 7 then B else B)", "(if 100 .> X then B else B)", "(if X .<= 7 then B else B)", "(if X .>= 7 then B else B)", "(if X .< 100 then B else B)", "([X] + 0)[0]", "(0 + [X])[0]", "([X] + [0])[0]", "max(X, 0)", "min(X, 100)", "sum(X)", "sum([X])", "abs(X)", "(X!) / 720", "(if (X)! > 0 then B else B)"]),
        1 => v.extend(["(X ?? null)", "(null ?? (X ?? null))", "(if X == null then B else B)"]),
        2 | 6 => v.extend(["(X + 0)", "(0 + X)", "(X * 1)", "(X ?? 0)", "(X via idf)", "(X where (q => true))", "[...X]", "reverse(reverse(X))", "(if X .<= B then B else B)", "(if len(X) >= 0 then B else B)", "flatten([X])"]),
        3 => v.extend(["{...X}", "{...X, a: 1}", "(if keys(X) .== [\"a\"] then B else B)", "{a: X.a}", "{a: X[\"a\"]}"]),
        4 => v.extend(["(X + \"\")", "(\"\" + X)", "(if X < \"t\" then B else B)", "(if X .>= \"s\" then B else B)", "(if X == \"s\" then B else B)", "join([...X], \"\")", "([X] + \"\")[0]", "to_string(X)", "X[0]", "lowercase(X)"]),
        5 => v.extend(["(X and true)", "(true and X)", "(X or false)", "(false or X)", "(X && true)", "(true && X)", "(X || false)", "(false || X)", "(not not X)", "(!!X)", "(not (not (X)))", "(if X then B else B)", "(if not X then B else B)", "([X] and true)[0]", "(true and [X])[0]", "([X] or [false])[0]", "(if X == true then B else B)"]),
        _ => v.extend(["(X ?? idf)"]),
    }
    v
}

fn base_value(ret: u8) -> &'static str {
    match ret {
        0 => "7",
        1 => "null",
        2 => "[1, 2]",
        3 => "{a: 1}",
        4 => "\"s\"",
        5 => "true",
        6 => "[]",
        _ => "idf",
    }
}

pub fn work_program(c: &WorkCase, depth: u32) -> String {
    let b = base_value(c.ret);
    let callee = match c.shape {
        1 => ("g", "f"),
        3 => ("o.m", "o.m"),
        _ => ("f", "f"),
    };
    let pass = |x: &str| -> String {
        if c.pass as usize >= PASS_FORMS {
            let forms = typed_forms(c.ret);
            return forms[(c.pass as usize - PASS_FORMS) % forms.len()].replace('X', x).replace('B', b);
        }
        match c.pass as usize % PASS_FORMS {
            0 => format!("({} ?? {})", x, b),
            1 => format!("(null ?? {})", x),
            2 => format!("[{}][0]", x),
            3 => format!("{{a: {}}}.a", x),
            4 => format!("(if true then {} else {})", x, b),
            5 => format!("idf({})", x),
            6 => format!("({} into idf)", x),
            7 => format!("([{}] via idf)[0]", x),
            8 => format!("do {{\n  t = {}\n  return t\n}}", x),
            9 => format!("[...[{}]][0]", x),
            10 => format!("idf(...[{}])", x),
            11 => format!("{{...{{a: {}}}}}.a", x),
            12 => format!("(({} ?? {}) ?? {})", x, b, b),
            13 => format!("[{}, 0][0]", x),
            14 => format!("[0, {}][-1]", x),
            15 => format!("map([{}], idf)[0]", x),
            16 => format!("([{}] where (q => true))[0]", x),
            17 => format!("(if false then {} else {})", b, x),
            18 => format!("{{[\"k\"]: {}}}.k", x),
            19 => format!("reduce([{}], (acc, q) => q, 0)", x),
            20 => format!("((q) => q)({})", x),
            21 => format!("((q?) => q)({})", x),
            22 => format!("((...q) => q[0])({})", x),
            _ => format!("[[{}]][0][0]", x),
        }
    };
    let body = |callee: &str| format!("if n <= 0 then {} else {}", b, pass(&format!("{}(n - 1)", callee)));
    let mut src = String::from("idf = q => q\n");
    match c.shape {
        1 => src.push_str(&format!("f = n => {}\ng = n => {}\nr = f({})\n", body(callee.0), body(callee.1), depth)),
        2 => src.push_str(&format!("f = n => do {{\n  m = n\n  return {}\n}}\nr = f({})\n", body("f").replace("n - 1", "m - 1").replace("n <= 0", "m <= 0"), depth)),
        3 => src.push_str(&format!("o = {{m: n => {}}}\nr = o.m({})\n", body("o.m"), depth)),
        _ => src.push_str(&format!("f = n => {}\nr = f({})\n", body("f"), depth)),
    }
    src
}

impl Check for Work {
    type Case = WorkCase;
    fn name(&self) -> &'static str {
        "work"
    }
    fn journal(&self) -> bool {
        true
    }
    fn run(&self, c: &WorkCase, ctx: &mut Ctx) -> Outcome {
        let ret = ["number", "null", "list", "record", "string", "boolean", "empty-list", "function"][c.ret as usize % 8];
        let pass = c.pass as usize;
        ctx.label(&format!("returns-{}", ret));
        ctx.label(if pass >= PASS_FORMS { "typed-form" } else { "generic-form" });
        ctx.nontrivial(hash_str(&format!("{:?}", (c.ret % 8, pass, c.shape % 4))));
        // calls made by a recursion `depth` levels deep, and its value
        let measure = |depth: u32| -> Result<(usize, String), String> {
            let src = work_program(c, depth);
            let s = crate::blots::Sess::new();
            let obs = s.run_program(&src)?;
            match obs.last() {
                Some(Ok(_)) if obs.len() >= 3 => {}
                Some(Err(e)) => return Err(format!("fails: {}", e)),
                _ => return Err("no value".into()),
            }
            let calls = blots_core::functions::get_function_call_stats().len();
            blots_core::functions::clear_function_call_stats();
            let shown = match s.obs("to_string(r)") {
                Ok(MV::Str(t)) => t,
                other => format!("{:?}", other),
            };
            Ok((calls, shown))
        };
        let expected = {
            let s = crate::blots::Sess::new();
            let _ = s.run_program("idf = q => q\n");
            match s.obs(&format!("to_string({})", base_value(c.ret))) {
                Ok(MV::Str(t)) => t,
                other => format!("{:?}", other),
            }
        };
        let mut counts: Vec<(u32, usize)> = Vec::new();
        for depth in [4u32, 8, 12, 16] {
            let (calls, shown) = match measure(depth) {
                Ok(x) => x,
                Err(e) => fail!(format!("work:{}:pass{}:fails", ret, pass), "a recursion {} levels deep should complete: {}\n--- program:\n{}", depth, e, work_program(c, depth)),
            };
            if shown != expected {
                fail!(format!("work:{}:pass{}:wrong-value", ret, pass), "expected {} at depth {}, got {}\n--- program:\n{}", expected, depth, shown, work_program(c, depth));
            }
            counts.push((depth, calls));
            // linear growth doubles the count from depth d to 2d (plus a constant); the bound leaves a
            // factor of three on top of that before it speaks of super-linear work
            let (d0, c0) = counts[0];
            if calls > 6 * (depth / d0) as usize * c0.max(1) + 64 {
                fail!(
                    format!("work:{}:pass{}:superlinear-calls", ret, pass),
                    "the number of function calls grows faster than the depth of a linear recursion: {:?} (depth, calls) - at this rate a recursion a few hundred calls deep, well below the limit of 1000, cannot complete\n--- program (depth {}):\n{}",
                    counts,
                    depth,
                    work_program(c, depth)
                );
            }
        }
        ctx.extra_evals(3);
        Ok(())
    }
}

pub fn strategy() -> BoxedStrategy<Case> {
    (0u8..18, prop_oneof![3 => 1u8..5, 2 => 5u8..13, 1 => 13u8..33], 0u8..19, prop::option::weighted(0.35, prop_oneof![4 => 100u16..900, 1 => 1100u16..6000]), any::<u8>())
        .prop_map(|(shape, nesting, kind, bounded, t)| {
            let plain = matches!(shape, 0 | 1 | 2 | 8 | 9 | 10 | 11 | 12 | 15 | 16 | 17);
            let tail = plain && t % 4 == 0;
            let nesting = if tail && t % 8 == 0 { 0 } else { nesting };
            // bounded variants: plain shapes only (callback shapes consume several call levels per step)
            let bounded = if matches!(shape, 0 | 1 | 2 | 8 | 9 | 10 | 11 | 12 | 15 | 16 | 17) { bounded } else { bounded.map(|d| d.min(250)) };
            Case { shape, nesting, kind, bounded, repl: false, tail }
        })
        .boxed()
}

pub fn run(ctx: &mut Ctx) {
    // every shape x a few nestings, unbounded and bounded(300)
    let mut fixed = Vec::new();
    for shape in 0..18u8 {
        // the recursive call as the operand of a record / list / argument spread
        for nesting in [1u8, 3] {
            for kind in [16u8, 17, 18] {
                fixed.push(Case { shape, nesting, kind, bounded: None, repl: false, tail: false });
                fixed.push(Case { shape, nesting, kind, bounded: Some(if matches!(shape, 3..=7 | 13 | 14) { 150 } else { 250 }), repl: false, tail: false });
            }
        }
        for kind in [19u8, 20, 21] {
            fixed.push(Case { shape, nesting: 1, kind, bounded: None, repl: false, tail: false });
        }
        for nesting in [1u8, 2, 4, 8] {
            for kind in [0u8, 4, 6, 7, 8, 13] {
                fixed.push(Case { shape, nesting, kind, bounded: None, repl: false, tail: false });
                fixed.push(Case { shape, nesting, kind, bounded: Some(if matches!(shape, 3..=7 | 13 | 14) { 200 } else { 300 }), repl: false, tail: false });
            }
        }
        // deep per-call nesting of every kind, runaway and just below the limit
        for nesting in [16u8, 24, 32] {
            for kind in 0u8..6 {
                fixed.push(Case { shape, nesting, kind, bounded: None, repl: false, tail: false });
            }
            if matches!(shape, 0 | 1 | 2 | 8 | 9 | 10 | 11 | 12 | 15 | 16 | 17) {
                fixed.push(Case { shape, nesting, kind: 0, bounded: Some(900), repl: false, tail: false });
                fixed.push(Case { shape, nesting, kind: 5, bounded: Some(900), repl: false, tail: false });
            }
        }
    }
    // tail calls (the recursive call is the whole branch of the body's conditional), bare and wrapped:
    // runaway, a few hundred deep, and deeper than the limit of 1000 nested calls
    for shape in [0u8, 1, 2, 8, 9, 10, 11, 12, 15, 16, 17] {
        for (nesting, kind) in [(0u8, 0u8), (1, 1), (1, 3), (2, 4), (3, 5)] {
            for bounded in [None, Some(300u16), Some(1500), Some(5000)] {
                fixed.push(Case { shape, nesting, kind, bounded, repl: false, tail: true });
            }
        }
        // the ordinary (non-tail) forms deeper than the limit as well
        for bounded in [Some(1200u16), Some(4000)] {
            fixed.push(Case { shape, nesting: 1, kind: 0, bounded, repl: false, tail: false });
        }
    }
    // the interactive mode (statements typed on a pseudo-terminal): single-line shapes
    for shape in [0u8, 1, 3, 5, 9, 12, 14] {
        for (nesting, kind) in [(1u8, 0u8), (4, 0), (12, 0), (12, 5), (24, 0)] {
            fixed.push(Case { shape, nesting, kind, bounded: None, repl: true, tail: false });
            if matches!(shape, 0 | 1 | 9 | 12) {
                fixed.push(Case { shape, nesting, kind, bounded: Some(300), repl: true, tail: false });
            }
        }
    }
    ctx.run_enum(&Recursion, fixed.into_iter(), false);
    // work: every value type x every value-preserving form x four shapes, counted in-process
    let mut work = Vec::new();
    for shape in 0..4u8 {
        for ret in 0..8u8 {
            for pass in 0..(PASS_FORMS + typed_forms(ret).len()) as u8 {
                work.push(WorkCase { ret, pass, shape });
            }
        }
    }
    ctx.run_enum(&Work, work.into_iter(), true);
    ctx.run_random(&Recursion, strategy(), ctx.tier.pick(400, 20_000));
}
