//! C15 — aggregates equal their mathematical definitions in both calling conventions.

use crate::blots::Sess;
use crate::engine::{Check, Ctx, Outcome, mix};
use crate::fail;
use crate::model::mv::{num, num_source};
use crate::model::{F, MV};
use proptest::prelude::*;
use serde::{Deserialize, Serialize};

pub const RULE: &str = "number lists of length 1..50 (small integers, fractions, negatives, duplicates, +-0, +-inf, magnitudes up to 1e308 and down to subnormals, whole numbers around the 32- and 64-bit integer limits; no NaN) with two percentile ranks p1<=p2 in [0,100] (0, 50, 100 and random) and a permutation; every aggregate is evaluated as f(list), f(...list), f(x1, .., xn), with the arguments cut into several spreads with empty spreads before, between and after them (and f([x]) vs f(x)) and compared with Rust reference computations on the same doubles. Non-trivial = length >= 2 with at least two distinct elements; distinct by the list's bit patterns. In a third of the cases every aggregate is evaluated right after an aggregate call that was rejected part-way through (a non-number inside a list, among separate arguments or in a spread): the definitions hold whatever ran before.";
pub const ASSUMPTIONS: &[&str] = &[
    "sum / prod / avg are held to a rounding bound (n*eps*sum|x|, resp. relative n*eps) only where no partial result over- or underflows; otherwise only the result class is checked, because the order of operations then legitimately matters",
    "median of an even-length list must lie between the two middle order statistics (inclusive) and equal (a+b)/2, a/2+b/2 or a+(b-a)/2 computed in IEEE doubles; with an infinite middle value it is that infinity (NaN for -inf and +inf)",
    "prod is additionally held to the facts that do not depend on the order of multiplication: NaN with a zero and an infinity among the factors, otherwise a zero / infinity / finite value whose sign is the parity of the negative factors (only when the finite non-zero factors are such that no partial product can over- or underflow: sum of |log2|x|| < 1000)",
];

#[derive(Clone, Debug, Serialize, Deserialize)]
pub struct Case {
    pub xs: Vec<F>,
    pub p1: F,
    pub p2: F,
    pub perm: u64,
}

pub struct Aggregates;

fn getnum(o: &Result<MV, String>) -> Result<f64, String> {
    match o {
        Ok(MV::Num(F(x))) => Ok(*x),
        Ok(v) => Err(format!("non-number {:?}", v)),
        Err(e) => Err(format!("error: {}", e)),
    }
}

fn bits_eq(a: f64, b: f64) -> bool {
    (a.is_nan() && b.is_nan()) || a.to_bits() == b.to_bits()
}

fn permute(xs: &[f64], seed: u64) -> Vec<f64> {
    let mut v = xs.to_vec();
    // Fisher-Yates driven by a hash chain (deterministic, no RNG)
    for i in (1..v.len()).rev() {
        let j = (mix(seed, i as u64) % (i as u64 + 1)) as usize;
        v.swap(i, j);
    }
    v
}

struct Ref {
    sum: f64,
    sum_abs: f64,
    sum_safe: bool,
    prod: f64,
    prod_safe: bool,
    min: f64,
    max: f64,
    sorted: Vec<f64>,
}

fn reference(xs: &[f64]) -> Ref {
    let mut sum = 0.0;
    let mut sum_abs = 0.0;
    let mut sum_safe = xs.iter().all(|x| x.is_finite());
    for x in xs {
        sum += x;
        sum_abs += x.abs();
    }
    if !sum_abs.is_finite() || sum_abs > 1e307 {
        sum_safe = false;
    }
    let mut prod = 1.0f64;
    let mut prod_safe = xs.iter().all(|x| x.is_finite());
    // safe = the product of the magnitudes stays well inside the normal range in ANY order
    let mut hi = 0.0f64; // sum of positive log10 magnitudes
    let mut lo = 0.0f64; // sum of negative ones
    let has_zero = xs.iter().any(|x| *x == 0.0);
    for x in xs {
        prod *= x;
        if *x != 0.0 && x.is_finite() {
            let l = x.abs().log10();
            if l > 0.0 {
                hi += l
            } else {
                lo += l
            }
        }
    }
    if hi > 290.0 || lo < -290.0 {
        prod_safe = false;
    }
    if has_zero && !xs.iter().all(|x| x.is_finite()) {
        prod_safe = false;
    }
    let mut sorted = xs.to_vec();
    sorted.sort_by(|a, b| a.partial_cmp(b).unwrap());
    Ref {
        sum,
        sum_abs,
        sum_safe,
        prod,
        prod_safe,
        min: sorted[0],
        max: sorted[sorted.len() - 1],
        sorted,
    }
}

impl Check for Aggregates {
    type Case = Case;
    fn name(&self) -> &'static str {
        "aggregates"
    }
    fn run(&self, c: &Case, ctx: &mut Ctx) -> Outcome {
        let xs: Vec<f64> = c.xs.iter().map(|f| f.0).collect();
        let n = xs.len();
        assert!(n >= 1);
        let sess = Sess::new();
        let list = MV::List(xs.iter().map(|x| num(*x)).collect());
        sess.bind("l", &list);
        let perm = permute(&xs, c.perm);
        sess.bind("q", &MV::List(perm.iter().map(|x| num(*x)).collect()));
        sess.bind("p1", &num(c.p1.0));
        sess.bind("p2", &num(c.p2.0));
        let r = reference(&xs);
        let distinct = xs.iter().any(|x| *x != xs[0]);
        if n >= 2 && distinct {
            ctx.nontrivial(xs.iter().fold(n as u64, |h, x| mix(h, x.to_bits())));
        }
        ctx.label(match n {
            1 => "len=1",
            2..=5 => "len=2..5",
            6..=20 => "len=6..20",
            _ => "len=21..50",
        });
        if xs.iter().any(|x| x.is_infinite()) {
            ctx.label("has-infinity");
        }
        if n % 2 == 0 {
            ctx.label("even-length");
        }
        let eps = f64::EPSILON;
        let literal_args: String = xs.iter().map(|x| num_source(*x, false)).collect::<Vec<_>>().join(", ");
        // history: in a third of the cases every aggregate is evaluated right after an aggregate call
        // that was rejected part-way through its arguments (the definitions hold whatever ran before)
        let after_rejected = c.perm % 3 == 0;
        if after_rejected {
            ctx.label("after-rejected-aggregate-call");
        }
        for (k, agg) in ["sum", "prod", "avg", "min", "max", "median"].into_iter().enumerate() {
            if after_rejected {
                let other = ["sum", "max", "median", "avg", "min", "prod", "percentile"][(c.perm as usize / 3 + k) % 7];
                let bad = match (c.perm as usize / 21 + k) % 4 {
                    0 => format!("{}([1000, \"a\"]{})", other, if other == "percentile" { ", 50" } else { "" }),
                    1 if other != "percentile" => format!("{}(1000, null, 3)", other),
                    2 if other != "percentile" => format!("{}(...[1000, 2000, true])", other),
                    _ => format!("{}([1000, 2000, [3]]{})", other, if other == "percentile" { ", 50" } else { "" }),
                };
                let _ = sess.obs(&bad);
            }
            let v_list = getnum(&sess.probe(&format!("{}(l)", agg)));
            let v_spread = getnum(&sess.probe(&format!("{}(...l)", agg)));
            let v_args = getnum(&sess.obs(&format!("{}({})", agg, literal_args)));
            let v_perm = getnum(&sess.probe(&format!("{}(q)", agg)));
            let got = match &v_list {
                Ok(x) => *x,
                Err(e) => fail!(format!("{}:list-form-fails", agg), "{}(l) failed for l = {}: {}", agg, list.to_source(false), e),
            };
            // the spread convention, however the arguments are cut into spreads (empty ones included)
            let cut = n / 2;
            sess.bind("l1", &MV::List(xs[..cut].iter().map(|x| MV::Num(F(*x))).collect()));
            sess.bind("l2", &MV::List(xs[cut..].iter().map(|x| MV::Num(F(*x))).collect()));
            let v_mixed: Vec<(&str, Result<f64, String>)> = [
                ("spread-after-empty-spread", "AGG(...[], ...l)"),
                ("spread-before-empty-spread", "AGG(...l, ...[])"),
                ("two-empty-spreads-then-spread", "AGG(...[], ...[], ...l)"),
                ("two-spreads", "AGG(...l1, ...l2)"),
                ("spread-empty-spread-spread", "AGG(...l1, ...[], ...l2)"),
                ("spread-of-spread-list", "AGG(...[...l1, ...l2])"),
            ]
            .iter()
            .map(|(name, src)| (*name, getnum(&sess.probe(&src.replace("AGG", agg)))))
            .collect();
            for (name, v) in [("spread", &v_spread), ("varargs", &v_args)].into_iter().chain(v_mixed.iter().map(|(n, v)| (*n, v))) {
                match v {
                    Ok(x) if bits_eq(*x, got) => {}
                    other => fail!(
                        format!("{}:convention:{}", agg, name),
                        "{}(list) = {:e} but the {} form gave {:?} for {}",
                        agg,
                        got,
                        name,
                        other,
                        list.to_source(false)
                    ),
                }
            }
            // definition
            match agg {
                "sum" | "avg" => {
                    let (want, tol) = if agg == "sum" {
                        (r.sum, n as f64 * eps * r.sum_abs)
                    } else {
                        (r.sum / n as f64, eps * r.sum_abs + eps * (r.sum / n as f64).abs())
                    };
                    if r.sum_safe {
                        if !((got - want).abs() <= tol) {
                            fail!(format!("{}:definition", agg), "{}({}) = {:e}, reference {:e} (tolerance {:e})", agg, list.to_source(false), got, want, tol);
                        }
                    } else {
                        let pinf = xs.iter().any(|x| *x == f64::INFINITY);
                        let ninf = xs.iter().any(|x| *x == f64::NEG_INFINITY);
                        let finite_abs: f64 = xs.iter().filter(|x| x.is_finite()).map(|x| x.abs()).sum();
                        if finite_abs < 1e307 {
                            let ok = match (pinf, ninf) {
                                (true, true) => got.is_nan(),
                                (true, false) => got == f64::INFINITY,
                                (false, true) => got == f64::NEG_INFINITY,
                                (false, false) => true,
                            };
                            if !ok {
                                fail!(format!("{}:infinity-class", agg), "{}({}) = {:e}", agg, list.to_source(false), got);
                            }
                        }
                    }
                }
                "prod" => {
                    if r.prod_safe {
                        let tol = (n as f64 + 1.0) * eps * r.prod.abs();
                        if !((got - r.prod).abs() <= tol) {
                            fail!("prod:definition", "prod({}) = {:e}, reference {:e} (tolerance {:e})", list.to_source(false), got, r.prod, tol);
                        }
                    }
                    // facts about an IEEE product that hold in every order of multiplication
                    let zero = xs.iter().any(|x| *x == 0.0);
                    let inf = xs.iter().any(|x| x.is_infinite());
                    let negative = xs.iter().filter(|x| x.is_sign_negative()).count() % 2 == 1;
                    // ... as long as no partial product of the finite non-zero factors can over- or underflow
                    let spread: f64 = xs.iter().filter(|x| x.is_finite() && **x != 0.0).map(|x| x.abs().log2().abs()).sum();
                    let class_ok = spread >= 1000.0 || match (zero, inf) {
                        (true, true) => got.is_nan(),
                        (true, false) => got == 0.0 && got.is_sign_negative() == negative,
                        (false, true) => got.is_infinite() && got.is_sign_negative() == negative,
                        (false, false) => !got.is_nan() && (got == 0.0 || got.is_sign_negative() == negative),
                    };
                    if !class_ok {
                        fail!(
                            format!("prod:class:{}", match (zero, inf) { (true, true) => "zero-and-infinity", (true, false) => "signed-zero", (false, true) => "signed-infinity", _ => "sign" }),
                            "prod({}) = {:e}: with {} the product is {} in every order of multiplication",
                            list.to_source(false),
                            got,
                            match (zero, inf) { (true, true) => "a zero and an infinity among the factors", (true, false) => "a zero among the factors", (false, true) => "an infinity among the factors", _ => "these signs" },
                            match (zero, inf) { (true, true) => "NaN".to_string(), (true, false) => format!("{}0", if negative { "-" } else { "+" }), (false, true) => format!("{}inf", if negative { "-" } else { "+" }), _ => format!("{}", if negative { "negative or -0" } else { "positive or +0" }) }
                        );
                    }
                }
                "min" | "max" => {
                    let want = if agg == "min" { r.min } else { r.max };
                    if !(got == want) || !xs.iter().any(|x| *x == got) {
                        fail!(format!("{}:definition", agg), "{}({}) = {:e}, expected {:e}", agg, list.to_source(false), got, want);
                    }
                }
                "median" => {
                    let s = &r.sorted;
                    let ok = if n % 2 == 1 {
                        got == s[n / 2]
                    } else {
                        // the mean of the two middle order statistics: between them (any rounding of
                        // a value between two doubles stays between them) and one of the usual
                        // one-rounding ways to compute it
                        let (a, b) = (s[n / 2 - 1], s[n / 2]);
                        let between = a <= got && got <= b;
                        let formula = bits_eq(got, (a + b) / 2.0) || bits_eq(got, a / 2.0 + b / 2.0) || got == (a + b) / 2.0 || bits_eq(got, a + (b - a) / 2.0);
                        if a.is_infinite() || b.is_infinite() {
                            // an infinite middle value: the mean is that infinity, or NaN for -inf and +inf
                            if a == b { got == a } else if a.is_infinite() && b.is_infinite() { got.is_nan() } else { got == if a.is_infinite() { a } else { b } }
                        } else {
                            between && formula
                        }
                    };
                    if !ok {
                        fail!(
                            format!("median:definition:{}", if n % 2 == 1 { "odd" } else { "even" }),
                            "median({}) = {:e}; sorted = {:?}",
                            list.to_source(false),
                            got,
                            s
                        );
                    }
                }
                _ => unreachable!(),
            }
            // permutation invariance
            match agg {
                "min" | "max" | "median" => match &v_perm {
                    Ok(x) if *x == got || bits_eq(*x, got) => {}
                    other => fail!(format!("{}:permutation", agg), "{} of a permutation gave {:?} instead of {:e}: {} vs {:?}", agg, other, got, list.to_source(false), perm),
                },
                "sum" | "avg" if r.sum_safe => match &v_perm {
                    Ok(x) if (x - got).abs() <= 2.0 * n as f64 * eps * r.sum_abs => {}
                    other => fail!(format!("{}:permutation", agg), "{} of a permutation gave {:?} instead of {:e}", agg, other, got),
                },
                "prod" if r.prod_safe => match &v_perm {
                    Ok(x) if (x - got).abs() <= 2.0 * (n as f64 + 1.0) * eps * got.abs() => {}
                    other => fail!("prod:permutation", "prod of a permutation gave {:?} instead of {:e}", other, got),
                },
                _ => {}
            }
            // single-element conventions: f([x]) == f(x)
            let one = getnum(&sess.obs(&format!("{}({})", agg, num_source(xs[0], false))));
            let one_l = getnum(&sess.obs(&format!("{}([{}])", agg, num_source(xs[0], false))));
            match (&one, &one_l) {
                (Ok(a), Ok(b)) if bits_eq(*a, *b) && (*a == xs[0] || bits_eq(*a, xs[0])) => {}
                other => fail!(format!("{}:single", agg), "{}(x) / {}([x]) for x = {:e} gave {:?}", agg, agg, xs[0], other),
            }
        }
        // percentile
        let (p1, p2) = (c.p1.0.min(c.p2.0), c.p1.0.max(c.p2.0));
        sess.bind("pa", &num(p1));
        sess.bind("pb", &num(p2));
        let q1 = getnum(&sess.probe("percentile(l, pa)"));
        let q2 = getnum(&sess.probe("percentile(l, pb)"));
        let q0 = getnum(&sess.probe("percentile(l, 0)"));
        let q100 = getnum(&sess.probe("percentile(l, 100)"));
        let qperm = getnum(&sess.probe("percentile(q, pa)"));
        match (&q1, &q2, &q0, &q100) {
            (Ok(a), Ok(b), Ok(z), Ok(h)) => {
                if !xs.iter().any(|x| x == a) || !xs.iter().any(|x| x == b) {
                    fail!("percentile:not-an-element", "percentile({}, {}) = {:e} / p={} -> {:e}", list.to_source(false), p1, a, p2, b);
                }
                if !(a <= b) {
                    fail!("percentile:not-monotone", "percentile({}, {}) = {:e} > percentile(.., {}) = {:e}", list.to_source(false), p1, a, p2, b);
                }
                if !(*z == r.min) || !(*h == r.max) {
                    fail!("percentile:endpoints", "percentile({}, 0) = {:e}, percentile(.., 100) = {:e}; min {:e} max {:e}", list.to_source(false), z, h, r.min, r.max);
                }
                match &qperm {
                    Ok(x) if x == a => {}
                    other => fail!("percentile:permutation", "percentile of a permutation gave {:?} instead of {:e}", other, a),
                }
            }
            other => fail!("percentile:fails", "percentile({}, p) failed: {:?}", list.to_source(false), other),
        }
        Ok(())
    }
}

fn elem() -> BoxedStrategy<f64> {
    prop_oneof![
        5 => (-9i32..10).prop_map(|i| i as f64),
        2 => (-2000i32..2000).prop_map(|i| i as f64 / 16.0),
        1 => prop::sample::select(vec![0.0, -0.0, 0.1, 0.2, 0.3, 1e15, -1e15, 1e-15, 1e100, -1e100, 1e-100, 1e308, -1e308, f64::MAX, f64::MIN_POSITIVE, 5e-324, 9007199254740993.0]),
        1 => prop::sample::select(vec![f64::INFINITY, f64::NEG_INFINITY, 1e308, 1.5]),
        2 => crate::gen_::finite_f64(),
    ]
    .boxed()
}

pub fn strategy() -> BoxedStrategy<Case> {
    let p = || {
        prop_oneof![
            2 => prop::sample::select(vec![0.0, 50.0, 100.0, 25.0, 75.0, 99.9, 0.1, 33.333333333333336]),
            2 => (0u32..=1000).prop_map(|i| i as f64 / 10.0),
            1 => 0.0f64..=100.0,
        ]
    };
    (
        prop_oneof![
            3 => prop::collection::vec(elem(), 1..8),
            2 => prop::collection::vec(elem(), 1..51),
            // subnormals and the smallest normals only (halving is not exact there)
            1 => prop::collection::vec((1u64..40).prop_map(f64::from_bits), 1..9),
            1 => prop::collection::vec(prop_oneof![(1u64..(1u64 << 52)).prop_map(f64::from_bits), Just(f64::MIN_POSITIVE), Just(-5e-324)], 1..9),
            // zeros of both signs among negatives and infinities (order-sensitive shortcuts)
            1 => prop::collection::vec(prop::sample::select(vec![0.0, -0.0, 5.0, -3.0, 7.0, f64::INFINITY, f64::NEG_INFINITY, 2.0]), 2..7),
            // whole numbers around the 64-bit (and 32-bit) integer limits: sums and products of these
            // are exact in doubles or round once - nothing wraps
            1 => prop::collection::vec(prop::sample::select(vec![9e18, 9.2e18, 4.7e18, 2e17, -9e18, -4.7e18, 9223372036854775807.0, 4611686018427387904.0, 2147483647.0, 4294967296.0, -2147483648.0, 1e19, 3.0, -1.0]), 2..8),
            // many duplicates
            1 => (prop::collection::vec(elem(), 1..4), prop::collection::vec(any::<u16>(), 1..30)).prop_map(|(base, idx)| {
                idx.iter().map(|i| base[crate::engine::pick_idx(*i, base.len())]).collect::<Vec<f64>>()
            }),
        ],
        p(),
        p(),
        any::<u64>(),
    )
        .prop_map(|(xs, p1, p2, perm)| Case {
            xs: xs.into_iter().map(F).collect(),
            p1: F(p1),
            p2: F(p2),
            perm,
        })
        .boxed()
}

pub fn run(ctx: &mut Ctx) {
    ctx.run_random(&Aggregates, strategy(), ctx.tier.pick(20_000, 600_000));
}
