//! C09 — formatting never loses or reorders comments.

use super::fmt::{self, Case};
use crate::engine::{Check, Ctx, Outcome, hash_str};
use crate::fail;

pub const RULE: &str = "same program / layout / width generator as C07 with comments injected at every position the grammar admits (standalone lines before / after statements, end of line after a statement, standalone lines before list items and record entries, after a comma at end of line, after the last item with and without trailing comma, before the closing bracket, do-block standalone lines / end of line / before return); the comment sequence extracted by a harness lexer (tracks string literals) must be identical before and after formatting through the WASM driver loop and `blots --format` (whole programs) and through format_expr (single statements with in-expression comments). Files in which one statement is refused when the tree is built (radix literals beyond 64 bits, 4 literals x 7 file shapes with comments of every kind): `blots --format` must refuse the file without leaving an output, or keep every comment. Non-trivial = >= 2 comments in >= 2 different position kinds; distinct by (program text, width).";
pub const ASSUMPTIONS: &[&str] = &[
    "comments at continuation positions, which the grammar swallows silently (inside call arguments, after a binary operator at end of line), are outside the statement's list and are not generated here",
    "comment texts are compared after trimming trailing white space",
];

pub struct Comments;

fn compare(ctx: &mut Ctx, driver: &str, input: &[String], kinds: &[&'static str], output_text: &str, source: &str) -> Outcome {
    let out = fmt::lex_comments(output_text);
    let mut inp: Vec<String> = input.iter().map(|c| c.trim_end().to_string()).collect();
    let mut kinds: Vec<&'static str> = kinds.to_vec();
    if out == inp {
        return Ok(());
    }
    // a listed finding (comments inside an empty list / record are dropped) is stepped over, so
    // that the other comments of the program are still compared
    let sig = format!("{}:lost:inside-empty-collection", driver);
    let mut i = 0;
    while i < inp.len() {
        if kinds.get(i).copied() == Some("inside-empty-collection") && !out.contains(&inp[i]) {
            let (c, src) = (inp[i].clone(), source.to_string());
            if ctx.step_over_known("comments", &sig, || (format!("comment {:?} inside an empty collection is missing after formatting\n--- source:\n{}", c, src), serde_json::Value::String(src.clone()))) {
                inp.remove(i);
                kinds.remove(i);
                continue;
            }
        }
        i += 1;
    }
    if out == inp {
        return Ok(());
    }
    // classify
    for (i, c) in inp.iter().enumerate() {
        let n_in = inp.iter().filter(|x| *x == c).count();
        let n_out = out.iter().filter(|x| *x == c).count();
        if n_out < n_in {
            fail!(
                format!("{}:lost:{}", driver, kinds.get(i).copied().unwrap_or("?")),
                "comment {:?} (position: {}) is missing after formatting\n--- output:\n{}\n--- source:\n{}",
                c,
                kinds.get(i).copied().unwrap_or("?"),
                output_text,
                source
            );
        }
        if n_out > n_in {
            fail!(format!("{}:duplicated:{}", driver, kinds.get(i).copied().unwrap_or("?")), "comment {:?} appears {} times after formatting\n--- output:\n{}\n--- source:\n{}", c, n_out, output_text, source);
        }
    }
    if let Some(extra) = out.iter().find(|c| !inp.contains(c)) {
        fail!(format!("{}:altered", driver), "comment text {:?} appears only after formatting\n--- output:\n{}\n--- source:\n{}", extra, output_text, source);
    }
    let first = inp.iter().zip(&out).position(|(a, b)| a != b).unwrap_or(0);
    fail!(
        format!("{}:reordered:{}", driver, kinds.get(first).copied().unwrap_or("?")),
        "comments are reordered by formatting: {:?} became {:?}\n--- output:\n{}\n--- source:\n{}",
        inp,
        out,
        output_text,
        source
    );
}

impl Check for Comments {
    type Case = Case;
    fn name(&self) -> &'static str {
        "comments"
    }
    fn journal(&self) -> bool {
        true
    }
    fn run(&self, c: &Case, ctx: &mut Ctx) -> Outcome {
        let r = fmt::render_with(c, true, true);
        // the harness lexer must agree with what the generator inserted
        if fmt::lex_comments(&r.text) != r.comments.iter().map(|x| x.trim_end().to_string()).collect::<Vec<_>>() {
            fail!("harness:lexer-disagrees", "lexer finds {:?}, generator inserted {:?} in\n{}", fmt::lex_comments(&r.text), r.comments, r.text);
        }
        if fmt::parse_c(&r.text).is_err() {
            if r.comment_kinds.iter().any(|k| k.starts_with("speculative:")) {
                // a position the grammar under test does not admit: nothing to check
                ctx.label("speculative-position-rejected-by-the-parser");
                return Ok(());
            }
            ctx.discard();
            return Ok(());
        }
        if r.comments.len() >= 2 && r.position_kinds.len() >= 2 {
            ctx.nontrivial(hash_str(&format!("{}|{}", r.text, c.width)));
        }
        for k in &r.position_kinds {
            ctx.label(k);
        }
        if let Some(out) = fmt::format_wasm(&r.text, c.width) {
            compare(ctx, "wasm", &r.comments, &r.comment_kinds, &out, &r.text)?;
        }
        if c.cli {
            match fmt::format_cli(ctx, &r.text) {
                Ok(out) => compare(ctx, "cli", &r.comments, &r.comment_kinds, &out, &r.text)?,
                Err(e) => fail!("cli:format-failed", "{}\n{}", e, r.text),
            }
        }
        // library driver on single statements with in-expression comments
        for i in 0..c.prog.len() {
            let rs = fmt::render_statement(c, i);
            if rs.comments.is_empty() {
                continue;
            }
            let Ok(st) = fmt::parse_c(&rs.text) else {
                ctx.discard();
                continue;
            };
            let exprs: Vec<_> = st.iter().filter_map(|s| s.stmt.for_format()).collect();
            if exprs.len() != 1 {
                continue;
            }
            let out = blots_core::formatter::format_expr(&exprs[0], fmt::width_opt(c.width));
            ctx.extra_evals(1);
            compare(ctx, "library", &rs.comments, &rs.comment_kinds, &out, &rs.text)?;
        }
        Ok(())
    }
}

/// files in which one statement is refused when the tree is built (a radix literal beyond 64
/// bits): `--format` either refuses the file (non-zero status, no output file) or, if it
/// produces an output, that output has every comment of the input
pub struct RefusedFiles;

impl Check for RefusedFiles {
    type Case = String;
    fn name(&self) -> &'static str {
        "refused-files"
    }
    fn run(&self, text: &String, ctx: &mut Ctx) -> Outcome {
        ctx.label("file-with-refused-statement");
        ctx.nontrivial(hash_str(text));
        let dir = crate::engine::proc::scratch_dir("fmtref");
        let inp = format!("{}/in.blots", dir);
        let outp = format!("{}/out.blots", dir);
        std::fs::write(&inp, text).map_err(|e| e.to_string()).unwrap();
        let r = crate::engine::proc::run(&ctx.cli_path, &["--format".into(), inp.clone(), outp.clone()], None, None, &crate::engine::proc::Limits::default());
        let out = std::fs::read_to_string(&outp).ok();
        let _ = std::fs::remove_dir_all(&dir);
        let r = match r {
            Ok(r) => r,
            Err(e) => fail!("refused:spawn", "{}", e),
        };
        if r.signal.is_some() || r.code == Some(101) {
            fail!(format!("refused:crash:{}", r.describe()), "blots --format ended with {} on\n{}", r.describe(), text);
        }
        match (r.code, out) {
            (Some(0), Some(out)) => {
                let want = fmt::lex_comments(text);
                let got = fmt::lex_comments(&out);
                if want != got {
                    fail!("cli:lost:file-with-refused-statement", "blots --format exits 0 but the comments {:?} became {:?}\n--- output:\n{}\n--- source:\n{}", want, got, out, text);
                }
            }
            (Some(0), None) => fail!("refused:exit-0-without-output", "blots --format exits 0 without writing the output file for\n{}", text),
            (_, Some(out)) => fail!("refused:output-despite-failure", "blots --format fails ({}) but leaves an output file:\n{}", r.describe(), out),
            (_, None) => {}
        }
        Ok(())
    }
}

fn refused_files() -> Vec<String> {
    let mut v = Vec::new();
    let lits = ["0xFFFFFFFFFFFFFFFFFF", "0x8000000000000000", "0b1111111111111111111111111111111111111111111111111111111111111111", "0xffffffffffffffffffffffff"];
    let shapes = [
        "// header\nlimit = LIT // c1\ny = 1 // c2\n",
        "x = 1 // c1\n// standalone\nlimit = [LIT, // c2\n  2]\n",
        "limit = LIT // c1\n",
        "a = 1 // first\noutput limit = LIT + a // c1\n// tail\n",
        "limits = {\n  // inside\n  top: LIT, // c1\n}\nz = 2 // c2\n",
        "f = x => do {\n  // in block\n  m = LIT // c1\n  return m + x // c2\n}\n",
        "a = 1\n\n// table of limits\nb = LIT // c1\n\nc = 3 // c2\n",
    ];
    for l in lits {
        for sh in shapes {
            v.push(sh.replace("LIT", l));
        }
    }
    v
}

pub fn run(ctx: &mut Ctx) {
    ctx.run_enum(&RefusedFiles, refused_files().into_iter(), false);
    ctx.run_random(&Comments, fmt::strategy(5, 4), ctx.tier.pick(30_000, 500_000));
    ctx.run_random(&Comments, fmt::strategy(2, 6), ctx.tier.pick(10_000, 200_000));
    ctx.run_random(&Comments, fmt::typed_strategy(), ctx.tier.pick(6_000, 100_000));
    // programs dominated by nested lambdas (curried, applied, do-block / conditional / list bodies)
    ctx.run_random(&Comments, fmt::lambda_heavy_strategy(), ctx.tier.pick(6_000, 120_000));
}
