//! C13 — via / where / into agree with map / filter / application for every function.

use crate::blots::{Obs, Sess};
use crate::engine::{Check, Ctx, Outcome, hash_str, pick_idx};
use crate::fail;
use crate::model::mv::num;
use crate::model::{F, MV};
use proptest::prelude::*;
use serde::{Deserialize, Serialize};

pub const RULE: &str = "(list of length 0..10, and of length 60..200, callee) pairs: the callee is drawn from a table of lambdas of arity 1, 2, optional-index, rest and optional-plus-rest shape, closures, self-recursive (fact, fib) and mutually recursive late-bound (is_even / is_odd) named functions, predicates that fail on some element, non-boolean predicates, anonymous lambdas, and built-ins of every arity class (exactly one, one-or-two, at-least-one, exactly two); both equivalent forms are evaluated in one environment and must give the same value or both fail; reduce is compared with a left fold the harness assembles from single applications, also from initial values that are functions; recording callbacks expose the (element, index) protocol; pipelines in one expression (`l where p via f`, `l via f where p`, `range(a, b) via f`, literal and spread lists) are compared with the composition of their stages; the same recursion written with `n - 1 into f` and with `f(n - 1)` is compared at depths 0..990; functions that refer to each other and are local to a do-block / function body are used through every form. Non-trivial = non-empty list and a callee that is named-recursive, of arity != 1, or a built-in; distinct by (list, callee).";
pub const ASSUMPTIONS: &[&str] = &[
    "failure is compared by status (both forms fail / both succeed with equal values), not by message",
    "every/some are compared with the conjunction / disjunction only when the predicate succeeds with a boolean on every element",
];

const PRELUDE: &str = r#"inc = x => x + 1
addi = (x, i) => x * 10 + i
opt = (x, i?) => [x, i]
rest = (...a) => a
optrest = (x?, ...r) => [x, r]
optrest2 = (x, i?, ...r) => [x, i, r]
optrest3 = (x?, i?, j?, ...r) => [x, i, j, r]
restpred = (x?, ...r) => r[0] != 1
accoptrest = (a, x?, ...r) => [a, x, r]
accoptrest2 = (a?, x?, i?, ...r) => [x, i, r]
one = (x) => [x]
k = 10
clos = x => x + k
fact = n => if n <= 1 then 1 else n * fact(n - 1)
fib = n => if n < 2 then n else fib(n - 1) + fib(n - 2)
downi = n => if n <= 0 then 0 else (n - 1 into downi) + 1
downc = n => if n <= 0 then 0 else downc(n - 1) + 1
is_even = n => if n == 0 then true else is_odd(n - 1)
is_odd = n => if n == 0 then false else is_even(n - 1)
pos = x => x > 0
big = x => x > 2
evenidx = (x, i) => i % 2 == 0
failing = x => if x == 3 then nope_undefined else x > 1
nonbool = x => x
nullish = x => if x > 2 then true else null
alwaysnull = x => null
field = x => {a: 1}.active
acc2 = (a, x) => a + x
acc3 = (a, x, i) => a + x * i
accrest = (...a) => a
accfact = (a, x) => a + fact(x)
mk = n => (x => x + n)
add5 = mk(5)
twice = f => (x => f(f(x)))
inc2 = twice(inc)
"#;

/// (callee expression, min args, max args (None = rest), kind)
#[derive(Clone, Copy, PartialEq)]
enum Kind {
    Unary,
    Pred,
    Acc,
}
const CALLEES: &[(&str, usize, Option<usize>, Kind, &str)] = &[
    ("inc", 1, Some(1), Kind::Unary, "lambda"),
    ("addi", 2, Some(2), Kind::Unary, "arity2"),
    ("opt", 1, Some(2), Kind::Unary, "optional"),
    ("rest", 0, None, Kind::Unary, "rest"),
    ("optrest", 0, None, Kind::Unary, "optional+rest"),
    ("optrest2", 1, None, Kind::Unary, "optional+rest"),
    ("optrest3", 0, None, Kind::Unary, "optional+rest"),
    ("restpred", 0, None, Kind::Pred, "optional+rest"),
    ("((x?, ...r) => r)", 0, None, Kind::Unary, "optional+rest"),
    ("one", 1, Some(1), Kind::Unary, "lambda"),
    ("clos", 1, Some(1), Kind::Unary, "closure"),
    ("add5", 1, Some(1), Kind::Unary, "closure"),
    ("inc2", 1, Some(1), Kind::Unary, "closure"),
    ("fact", 1, Some(1), Kind::Unary, "named-recursive"),
    ("fib", 1, Some(1), Kind::Unary, "named-recursive"),
    ("is_even", 1, Some(1), Kind::Pred, "mutual-recursive"),
    ("is_odd", 1, Some(1), Kind::Pred, "mutual-recursive"),
    ("pos", 1, Some(1), Kind::Pred, "lambda"),
    ("big", 1, Some(1), Kind::Pred, "lambda"),
    ("evenidx", 2, Some(2), Kind::Pred, "arity2"),
    ("failing", 1, Some(1), Kind::Pred, "failing"),
    ("nonbool", 1, Some(1), Kind::Pred, "nonbool"),
    ("nullish", 1, Some(1), Kind::Pred, "null-result"),
    ("alwaysnull", 1, Some(1), Kind::Pred, "null-result"),
    ("field", 1, Some(1), Kind::Pred, "null-result"),
    ("(x => x * 2)", 1, Some(1), Kind::Unary, "anonymous"),
    ("((x, i) => [i, x])", 2, Some(2), Kind::Unary, "anonymous-arity2"),
    ("(x => x .== 2)", 1, Some(1), Kind::Pred, "anonymous"),
    ("(n => if n <= 0 then 0 else n + 1)", 1, Some(1), Kind::Unary, "anonymous"),
    ("sqrt", 1, Some(1), Kind::Unary, "builtin-exact1"),
    ("abs", 1, Some(1), Kind::Unary, "builtin-exact1"),
    ("to_string", 1, Some(1), Kind::Unary, "builtin-exact1"),
    ("typeof", 1, Some(1), Kind::Unary, "builtin-exact1"),
    ("to_bool", 1, Some(1), Kind::Pred, "builtin-exact1"),
    ("len", 1, Some(1), Kind::Unary, "builtin-exact1"),
    ("round", 1, Some(2), Kind::Unary, "builtin-1or2"),
    ("range", 1, Some(2), Kind::Unary, "builtin-1or2"),
    ("sum", 1, None, Kind::Unary, "builtin-atleast1"),
    ("max", 1, None, Kind::Unary, "builtin-atleast1"),
    ("min", 1, None, Kind::Unary, "builtin-atleast1"),
    ("format", 1, None, Kind::Unary, "builtin-atleast1"),
    ("ugt", 2, Some(2), Kind::Pred, "builtin-exact2"),
    ("ulte", 2, Some(2), Kind::Pred, "builtin-exact2"),
    ("includes", 2, Some(2), Kind::Pred, "builtin-exact2"),
    ("concat", 2, None, Kind::Unary, "builtin-atleast2"),
    ("acc2", 2, Some(2), Kind::Acc, "lambda"),
    ("acc3", 3, Some(3), Kind::Acc, "arity3"),
    ("accrest", 0, None, Kind::Acc, "rest"),
    ("accoptrest", 1, None, Kind::Acc, "optional+rest"),
    ("accoptrest2", 0, None, Kind::Acc, "optional+rest"),
    ("accfact", 2, Some(2), Kind::Acc, "calls-named-recursive"),
    ("max", 1, None, Kind::Acc, "builtin-atleast1"),
    ("concat", 2, None, Kind::Acc, "builtin-atleast2"),
    ("ugt", 2, Some(2), Kind::Acc, "builtin-exact2"),
    ("slice", 3, Some(3), Kind::Acc, "builtin-exact3"),
];

fn accepts(min: usize, max: Option<usize>, n: usize) -> bool {
    n >= min && max.map(|m| n <= m).unwrap_or(true)
}

#[derive(Clone, Debug, Serialize, Deserialize)]
pub struct Case {
    pub l: Vec<MV>,
    /// callee expression text (a name from the prelude, an anonymous lambda, or a built-in)
    pub callee: String,
    /// true = used as reduce's accumulator function
    pub acc: bool,
    pub x: MV,
    pub init: MV,
}

/// (min args, max args, class) of a callee: the table for lambdas, the declared arity for built-ins
fn callee_meta(callee: &str) -> (usize, Option<usize>, String) {
    if let Some(c) = CALLEES.iter().find(|c| c.0 == callee) {
        return (c.1, c.2, c.4.to_string());
    }
    if let Some(b) = blots_core::functions::BuiltInFunction::from_ident(callee) {
        use blots_core::values::FunctionArity as A;
        return match b.arity() {
            A::Exact(n) => (n, Some(n), format!("builtin-exact{}", n)),
            A::AtLeast(n) => (n, None, format!("builtin-atleast{}", n)),
            A::Between(a, b) => (a, Some(b), format!("builtin-{}to{}", a, b)),
        };
    }
    match callee {
        "(() => 1)" => (0, Some(0), "arity0".into()),
        "((a, b, c) => a)" => (3, Some(3), "arity3".into()),
        "(x => x)" => (1, Some(1), "anonymous".into()),
        _ => (1, Some(1), "unknown".into()),
    }
}

/// every callee text used by the generators
fn all_callees() -> Vec<(String, bool)> {
    let mut v: Vec<(String, bool)> = CALLEES.iter().map(|c| (c.0.to_string(), c.3 == Kind::Acc)).collect();
    // ill-fitting lambdas in both roles
    for extra in ["(() => 1)", "((a, b, c) => a)", "inc", "(x => x)", "rest"] {
        v.push((extra.to_string(), false));
        v.push((extra.to_string(), true));
    }
    // every built-in in both roles (print writes to stderr and time_now is impure: skipped)
    for name in blots_core::functions::get_built_in_function_idents() {
        if name == "print" || name == "time_now" {
            continue;
        }
        v.push((name.to_string(), false));
        v.push((name.to_string(), true));
    }
    v
}

pub struct Forms;

fn status(o: &Obs) -> &'static str {
    match o {
        Ok(_) => "ok",
        Err(_) => "err",
    }
}

fn same(a: &Obs, b: &Obs) -> bool {
    match (a, b) {
        (Ok(x), Ok(y)) => x.same_nanclass(y),
        (Err(_), Err(_)) => true,
        _ => false,
    }
}

fn session() -> Result<Sess, String> {
    let sess = Sess::new();
    sess.set_inputs(&[]);
    let res = sess.run_program(PRELUDE)?;
    for (i, r) in res.iter().enumerate() {
        if let Err(e) = r {
            return Err(format!("prelude statement {} failed: {}", i, e));
        }
    }
    Ok(sess)
}

impl Check for Forms {
    type Case = Case;
    fn name(&self) -> &'static str {
        "forms"
    }
    fn journal(&self) -> bool {
        true
    }
    fn run(&self, c: &Case, ctx: &mut Ctx) -> Outcome {
        let callee = c.callee.as_str();
        if callee == "@local" {
            // functions that reference each other and are local to a do-block or a function body:
            // every form must find the late-bound partner
            ctx.label("local-mutual-recursion");
            ctx.nontrivial(hash_str(&format!("local{:?}", c.l)));
            let sess = match session() {
                Ok(s) => s,
                Err(e) => fail!("harness:prelude", "{}", e),
            };
            sess.bind("l", &MV::List(c.l.clone()));
            let defs = "  ev = n => if n <= 0 then true else od(n - 1)\n  od = n => if n <= 0 then false else ev(n - 1)\n  sq = n => helper(n) + 1\n  helper = n => n * n\n";
            let forms: [(&str, &str, &str); 6] = [
                ("via-map", "l via sq", "map(l, sq)"),
                ("where-filter", "l where ev", "filter(l, ev)"),
                ("into-apply", "l into (xs => map(xs, sq))", "(xs => (xs via sq))(l)"),
                ("every", "every(l, ev)", "len(l where ev) == len(l)"),
                ("some", "some(l, od)", "len(l where od) > 0"),
                ("reduce", "reduce(l, (a, x) => a + sq(x), 0)", "sum([0, ...(l via sq)])"),
            ];
            for (law, a_src, b_src) in forms {
                for wrapper in ["do {\nDEFS  return EXPR\n}", "(() => do {\nDEFS  return EXPR\n})()", "((l) => do {\nDEFS  return EXPR\n})(l)"] {
                    let a = sess.probe(&wrapper.replace("DEFS", defs).replace("EXPR", a_src));
                    let b = sess.probe(&wrapper.replace("DEFS", defs).replace("EXPR", b_src));
                    if !same(&a, &b) {
                        fail!(
                            format!("local:{}:{}/{}", law, status(&a), status(&b)),
                            "inside a block defining ev / od / sq / helper locally, `{}` gave {:?} but `{}` gave {:?} (l = {})",
                            a_src, a, b_src, b, MV::List(c.l.clone()).to_source(false)
                        );
                    }
                    if a.is_err() {
                        fail!(format!("local:{}:both-fail", law), "`{}` fails although every function it needs is defined in the block: {:?}", a_src, a);
                    }
                }
            }
            return Ok(());
        }
        if callee == "@deep" {
            // the same recursion written with `x into f` and with `f(x)`, d levels deep
            let sess = match session() {
                Ok(s) => s,
                Err(e) => fail!("harness:prelude", "{}", e),
            };
            sess.bind("d", &c.x);
            ctx.label("deep-into-vs-call");
            ctx.nontrivial(hash_str(&format!("deep{:?}", c.x)));
            let a = sess.probe("downi(d)");
            let b = sess.probe("downc(d)");
            let e = sess.probe("d into downc");
            if !same(&a, &b) || !same(&e, &b) {
                fail!(
                    format!("deep-into-apply:{}/{}/{}", status(&a), status(&b), status(&e)),
                    "with d = {:?}: downi(d) [step written `n - 1 into downi`] = {:?}, downc(d) [step written `downc(n - 1)`] = {:?}, `d into downc` = {:?}",
                    c.x,
                    a,
                    b,
                    e
                );
            }
            return Ok(());
        }
        let (min, max, class_s) = callee_meta(callee);
        let class = class_s.as_str();
        let kind = if c.acc { Kind::Acc } else { Kind::Unary };
        let sess = match session() {
            Ok(s) => s,
            Err(e) => fail!("harness:prelude", "{}", e),
        };
        sess.bind("l", &MV::List(c.l.clone()));
        sess.bind("x", &c.x);
        sess.bind("init", &c.init);
        ctx.label(class);
        if !c.l.is_empty() && class != "lambda" && class != "anonymous" && class != "closure" {
            ctx.nontrivial(hash_str(&format!("{:?}", c)));
        }
        let cmp = |law: &str, a_src: String, b_src: String| -> Outcome {
            let a = sess.probe(&a_src);
            let b = sess.probe(&b_src);
            if !same(&a, &b) {
                fail!(
                    format!("{}:{}:{}/{}", law, class, status(&a), status(&b)),
                    "`{}` gave {:?} but `{}` gave {:?} (l = {}, x = {}, init = {})",
                    a_src,
                    a,
                    b_src,
                    b,
                    MV::List(c.l.clone()).to_source(false),
                    c.x.to_source(false),
                    c.init.to_source(false)
                );
            }
            Ok(())
        };
        match kind {
            Kind::Unary | Kind::Pred => {
                cmp("via-map", format!("l via {}", callee), format!("map(l, {})", callee))?;
                cmp("into-apply", format!("x into {}", callee), format!("{}(x)", callee))?;
                cmp("into-apply-list", format!("l into {}", callee), format!("{}(l)", callee))?;
                cmp("where-filter", format!("l where {}", callee), format!("filter(l, {})", callee))?;
                // pipelines written in one expression are the composition of their stages: the
                // second stage sees positions in the list the first stage produced
                cmp("where-then-via", format!("l where big via {}", callee), format!("map(filter(l, big), {})", callee))?;
                cmp("where-then-via-named", format!("l where evenidx via {}", callee), format!("(kept => (kept via {}))(l where evenidx)", callee))?;
                cmp("via-then-where", format!("l via inc where {}", callee), format!("filter(map(l, inc), {})", callee))?;
                cmp("range-via", format!("range(2, 2 + len(l) % 5) via {}", callee), format!("map(range(2, 2 + len(l) % 5), {})", callee))?;
                cmp("range-via-named", format!("range(3, 6) via {}", callee), format!("(r => (r via {}))(range(3, 6))", callee))?;
                cmp("range-where", format!("range(1, 5) where {}", callee), format!("filter(range(1, 5), {})", callee))?;
                cmp("literal-list-via", format!("[7, 8, 9] via {}", callee), format!("map([7, 8, 9], {})", callee))?;
                cmp("spread-list-via", format!("[...l, 1] via {}", callee), format!("map([...l, 1], {})", callee))?;
                // argument protocol: the same calls the harness makes one by one
                let with_index = accepts(min, max, 2);
                let mut expected: Vec<Obs> = Vec::new();
                for (i, e) in c.l.iter().enumerate() {
                    sess.bind("e", e);
                    sess.bind("idx", &num(i as f64));
                    expected.push(sess.probe(&if with_index { format!("{}(e, idx)", callee) } else { format!("{}(e)", callee) }));
                }
                let via = sess.probe(&format!("l via {}", callee));
                let exp_via: Obs = expected.iter().cloned().collect::<Result<Vec<MV>, String>>().map(MV::List);
                if !same(&via, &exp_via) {
                    fail!(
                        format!("via-protocol:{}:{}/{}", class, status(&via), status(&exp_via)),
                        "`l via {}` = {:?}; applying the callee to (element{}) one by one gives {:?}; l = {}",
                        callee,
                        via,
                        if with_index { ", index" } else { "" },
                        exp_via,
                        MV::List(c.l.clone()).to_source(false)
                    );
                }
                // where / filter against the one-by-one results
                let all_bool = expected.iter().all(|r| matches!(r, Ok(MV::Bool(_))));
                if all_bool {
                    ctx.label("predicate-total");
                    let keep: Vec<MV> = c.l.iter().zip(&expected).filter(|(_, r)| **r == Ok(MV::Bool(true))).map(|(e, _)| e.clone()).collect();
                    let w = sess.probe(&format!("l where {}", callee));
                    if !same(&w, &Ok(MV::List(keep.clone()))) {
                        fail!(format!("where-definition:{}", class), "`l where {}` = {:?}, expected {:?}", callee, w, keep);
                    }
                    let ev = sess.probe(&format!("every(l, {})", callee));
                    let so = sess.probe(&format!("some(l, {})", callee));
                    let conj = expected.iter().all(|r| *r == Ok(MV::Bool(true)));
                    let disj = expected.iter().any(|r| *r == Ok(MV::Bool(true)));
                    if ev != Ok(MV::Bool(conj)) {
                        fail!(format!("every:{}", class), "every(l, {}) = {:?}, conjunction of the results is {}", callee, ev, conj);
                    }
                    if so != Ok(MV::Bool(disj)) {
                        fail!(format!("some:{}", class), "some(l, {}) = {:?}, disjunction of the results is {}", callee, so, disj);
                    }
                } else if expected.iter().any(|r| r.is_err()) {
                    ctx.label("callee-fails-on-some-element");
                }
            }
            Kind::Acc => {
                // reduce is the left fold from the initial value
                let with_index = accepts(min, max, 3);
                let mut acc: Obs = Ok(c.init.clone());
                for (i, e) in c.l.iter().enumerate() {
                    let Ok(a) = &acc else { break };
                    sess.bind("a", a);
                    sess.bind("e", e);
                    sess.bind("idx", &num(i as f64));
                    acc = sess.probe(&if with_index { format!("{}(a, e, idx)", callee) } else { format!("{}(a, e)", callee) });
                }
                let red = sess.probe(&format!("reduce(l, {}, init)", callee));
                if !same(&red, &acc) {
                    fail!(
                        format!("reduce-fold:{}:{}/{}", class, status(&red), status(&acc)),
                        "reduce(l, {}, init) = {:?}; the left fold is {:?}; l = {}, init = {}",
                        callee,
                        red,
                        acc,
                        MV::List(c.l.clone()).to_source(false),
                        c.init.to_source(false)
                    );
                }
                // the initial value is a value like any other - also when it is a function
                let n = c.l.len() as f64;
                for (src, want) in [
                    ("reduce(l, (a, x) => a, inc)(5)", num(6.0)),
                    ("reduce(l, (a, x) => (y => a(y) + 1), inc)(0)", num(n + 1.0)),
                    ("reduce(l, (a, x, i) => (y => a(y) + i), clos)(0)", num(10.0 + n * (n - 1.0) / 2.0)),
                    ("typeof(reduce(l, (a, x) => a, abs))", crate::model::mv::s("built-in function")),
                    ("reduce(l, (a, x) => a, abs)(0 - 4)", num(4.0)),
                ] {
                    let got = sess.probe(src);
                    if !same(&got, &Ok(want.clone())) {
                        fail!(
                            format!("reduce-function-initial:{}", status(&got)),
                            "`{}` = {:?}, the left fold from that initial function gives {:?}; l = {}",
                            src,
                            got,
                            want,
                            MV::List(c.l.clone()).to_source(false)
                        );
                    }
                }
            }
        }
        Ok(())
    }
}

fn elem() -> BoxedStrategy<MV> {
    prop_oneof![
        8 => (0i32..7).prop_map(|k| num(k as f64)),
        2 => (-3i32..12).prop_map(|k| num(k as f64)),
        1 => prop::sample::select(vec![0.5, 2.5, -1.5, 20.0]).prop_map(num),
        1 => prop::sample::select(vec!["a", "", "3"]).prop_map(crate::model::mv::s),
        1 => Just(MV::List(vec![num(1.0), num(2.0)])),
        1 => Just(MV::Bool(true)),
        1 => Just(MV::Null),
    ]
    .boxed()
}

pub fn strategy() -> BoxedStrategy<Case> {
    (
        prop_oneof![
            3 => prop::collection::vec((0i32..7).prop_map(|k| num(k as f64)), 0..11),
            2 => prop::collection::vec(elem(), 0..11),
        ],
        any::<u16>(),
        elem(),
        prop_oneof![Just(num(0.0)), Just(MV::List(vec![])), elem()],
    )
        .prop_map(|(l, ci, x, init)| {
            let all = all_callees();
            let (callee, acc) = all[pick_idx(ci, all.len())].clone();
            Case { l, callee, acc, x, init }
        })
        .boxed()
}

pub fn run(ctx: &mut Ctx) {
    // every callee on a few fixed lists
    let fixed: Vec<Vec<MV>> = vec![
        vec![],
        vec![num(3.0)],
        vec![num(1.0), num(2.0), num(3.0), num(4.0)],
        vec![num(0.0), num(5.0), num(2.0), num(2.0), num(6.0)],
    ];
    let mut cases = Vec::new();
    for (callee, acc) in all_callees() {
        for l in &fixed {
            cases.push(Case { l: l.clone(), callee: callee.clone(), acc, x: num(4.0), init: num(0.0) });
            cases.push(Case { l: l.clone(), callee: callee.clone(), acc, x: MV::List(vec![num(2.0), num(3.0)]), init: MV::List(vec![]) });
        }
    }
    // lists longer than any plausible internal block size, for every callee
    for (callee, acc) in all_callees() {
        for n in [64usize, 65, 70, 129, 200] {
            let l: Vec<MV> = (0..n).map(|i| num(((i * 5 + 3) % 7) as f64)).collect();
            cases.push(Case { l, callee: callee.clone(), acc, x: num(4.0), init: num(0.0) });
        }
    }
    // late-bound partners that are local to a block
    for l in [vec![], vec![num(0.0)], vec![num(0.0), num(1.0), num(2.0), num(3.0)], vec![num(5.0), num(4.0), num(6.0)]] {
        cases.push(Case { l, callee: "@local".into(), acc: false, x: MV::Null, init: MV::Null });
    }
    // recursion written with into and with a call, up to just below the call-depth limit
    for d in [0u32, 1, 10, 100, 400, 499, 500, 501, 700, 900, 990] {
        cases.push(Case { l: vec![], callee: "@deep".into(), acc: false, x: num(d as f64), init: MV::Null });
    }
    ctx.run_enum(&Forms, cases.into_iter(), false);
    ctx.run_random(&Forms, strategy(), ctx.tier.pick(15_000, 400_000));
    // long random lists
    let long = (prop::collection::vec((0i32..7).prop_map(|k| num(k as f64)), 60..140), any::<u16>()).prop_map(|(l, ci)| {
        let all = all_callees();
        let (callee, acc) = all[pick_idx(ci, all.len())].clone();
        Case { l, callee, acc, x: num(3.0), init: num(0.0) }
    });
    ctx.run_random(&Forms, long, ctx.tier.pick(1_500, 40_000));
    let _ = F(0.0);
}
