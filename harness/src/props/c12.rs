//! C12 — equality and ordering are coherent.

use crate::blots::Sess;
use crate::engine::{Check, Ctx, Outcome, hash_str, pick_idx};
use crate::fail;
use crate::model::mv::{num, s};
use crate::model::MV;
use proptest::prelude::*;
use std::cmp::Ordering;

pub const RULE: &str = "all ordered pairs (and, in the thorough tier, all triples; quick: a fixed-size random sample of triples) of a pool of ~150 data values dense in near-equal values (shared prefixes, permuted record keys, nested lists, +-0, proper prefixes, mixed types), plus random value pairs/triples; each pair is materialised in a fresh heap (equal strings in different cells) and the six dot operators and four u* built-ins are evaluated through the parser and evaluator and compared with the model's equality / partial order. Each relation is also evaluated with one operand written as a literal in the source (left and right, bare and parenthesised) and must not depend on the spelling. Containers holding one heap cell several times ([a, a] vs [a, b], records, nested, operands swapped) must give every relation the unshared copies give. Non-trivial = the two values differ but have the same type and a non-empty common prefix, or are records with permuted keys; distinct by the serialised pair.";
pub const ASSUMPTIONS: &[&str] = &[
    "the harness model of the order (model::mv::model_cmp / model_eq) transcribes the statement: numbers, booleans, strings by code point, lists lexicographic with proper prefix first, everything else unordered",
    "NaN is excluded from the pool (the statement quantifies over numbers other than NaN)",
];

pub fn pool() -> Vec<MV> {
    let l = |v: Vec<MV>| MV::List(v);
    let r = |v: Vec<(&str, MV)>| MV::Rec(v.into_iter().map(|(k, v)| (k.to_string(), v)).collect());
    let mut p = vec![
        num(0.0),
        num(-0.0),
        num(1.0),
        num(-1.0),
        num(1.5),
        num(2.0),
        num(1e15),
        num(1e-300),
        num(f64::MAX),
        num(f64::INFINITY),
        num(f64::NEG_INFINITY),
        num(9007199254740992.0),
        num(9007199254740993.0),
        num(0.1 + 0.2),
        num(0.3),
        MV::Bool(true),
        MV::Bool(false),
        MV::Null,
        s(""),
        s("a"),
        s("A"),
        s("ab"),
        s("abc"),
        s("abd"),
        s("b"),
        s("é"),
        s("e\u{301}"),
        // texts that differ only in how a line break is spelled: different strings
        s("a\nb"),
        s("a\r\nb"),
        s("a\rb"),
        s("a\r\n"),
        s("a\n"),
        s("z"),
        s("😀"),
        s("\u{ffff}"),
        s("\u{ff21}"),
        s("\u{e000}"),
        s("\u{10000}"),
        s("a\u{fffd}"),
        s("a😀"),
        s("1"),
        s("true"),
        s("null"),
        s("10"),
        s("9"),
        // the same key set in another order with one value different (under each key in turn)
        r(vec![("a", num(1.0)), ("b", num(2.0))]),
        r(vec![("b", num(2.0)), ("a", num(9.0))]),
        r(vec![("b", num(9.0)), ("a", num(1.0))]),
        r(vec![("a", num(1.0)), ("b", num(2.0)), ("c", num(3.0))]),
        r(vec![("c", num(3.0)), ("b", num(2.0)), ("a", num(7.0))]),
        r(vec![("c", num(7.0)), ("a", num(1.0)), ("b", num(2.0))]),
        r(vec![("b", num(7.0)), ("c", num(3.0)), ("a", num(1.0))]),
        // records whose key sets differ while the values under the unmatched keys are null
        r(vec![("a", MV::Null)]),
        r(vec![("b", MV::Null)]),
        r(vec![("b", num(1.0))]),
        r(vec![("a", MV::Null), ("c", num(1.0))]),
        r(vec![("b", MV::Null), ("c", num(1.0))]),
        // lists that are decided at an early position and hold incomparable values later
        l(vec![num(1.0), s("a")]),
        l(vec![num(2.0), num(5.0)]),
        l(vec![num(1.0), s("a"), MV::Bool(true)]),
        l(vec![num(2.0), MV::Null, l(vec![])]),
        l(vec![num(1.0), r(vec![("a", num(1.0))])]),
        l(vec![]),
        l(vec![num(1.0)]),
        l(vec![num(1.0), num(2.0)]),
        l(vec![num(1.0), num(2.0), num(3.0)]),
        l(vec![num(1.0), num(3.0)]),
        l(vec![num(2.0)]),
        l(vec![num(0.0)]),
        l(vec![num(-0.0)]),
        l(vec![s("a")]),
        l(vec![s("a"), s("b")]),
        l(vec![s("a"), num(1.0)]),
        l(vec![num(1.0), s("a")]),
        l(vec![num(1.0), s("b")]),
        l(vec![num(2.0), s("a")]),
        l(vec![MV::Null]),
        l(vec![MV::Null, MV::Null]),
        l(vec![MV::Bool(false)]),
        l(vec![MV::Bool(true)]),
        l(vec![MV::Bool(true), MV::Bool(false)]),
        l(vec![l(vec![])]),
        l(vec![l(vec![num(1.0)])]),
        l(vec![l(vec![num(1.0)]), num(2.0)]),
        l(vec![l(vec![num(1.0), num(2.0)])]),
        l(vec![l(vec![num(1.0)]), l(vec![num(2.0)])]),
        l(vec![l(vec![num(1.0)]), l(vec![num(3.0)])]),
        l(vec![num(1.0), l(vec![num(2.0)])]),
        l(vec![r(vec![("a", num(1.0))])]),
        l(vec![r(vec![("a", num(1.0))]), num(1.0)]),
        l(vec![r(vec![("a", num(1.0))]), num(2.0)]),
        l(vec![num(1.0), r(vec![("a", num(1.0))])]),
        l(vec![num(1.0), MV::Null]),
        l(vec![num(1.0), MV::Null, num(2.0)]),
        r(vec![]),
        r(vec![("a", num(1.0))]),
        r(vec![("a", num(2.0))]),
        r(vec![("b", num(1.0))]),
        r(vec![("a", num(1.0)), ("b", num(2.0))]),
        r(vec![("b", num(2.0)), ("a", num(1.0))]),
        r(vec![("a", num(2.0)), ("b", num(1.0))]),
        r(vec![("a", num(1.0)), ("b", num(2.0)), ("c", num(3.0))]),
        r(vec![("c", num(3.0)), ("a", num(1.0)), ("b", num(2.0))]),
        r(vec![("a", MV::Null)]),
        r(vec![("a", num(0.0))]),
        r(vec![("a", num(-0.0))]),
        r(vec![("a", l(vec![num(1.0), num(2.0)]))]),
        r(vec![("a", l(vec![num(2.0), num(1.0)]))]),
        r(vec![("a", r(vec![("x", num(1.0)), ("y", num(2.0))]))]),
        r(vec![("a", r(vec![("y", num(2.0)), ("x", num(1.0))]))]),
        r(vec![("a", r(vec![("y", num(2.0))]))]),
        r(vec![("", s(""))]),
        r(vec![("1", num(1.0))]),
        r(vec![("é", num(1.0))]),
        r(vec![("e\u{301}", num(1.0))]),
    ];
    // a family of strings / lists with long shared prefixes
    for t in ["", "x", "y", "xx", "xy", "x\u{0}", "xé"] {
        p.push(s(&format!("prefix-{}", t)));
        p.push(l(vec![num(5.0), num(6.0), s(t)]));
    }
    for k in 0..6 {
        p.push(l((0..k).map(|i| num(i as f64)).collect()));
        p.push(l((0..k).map(|_| num(7.0)).collect()));
    }
    p
}

const RELS: [&str; 10] = [
    "a .== b", "a .!= b", "a .< b", "a .<= b", "a .> b", "a .>= b", "ugt(a, b)", "ult(a, b)", "ugte(a, b)",
    "ulte(a, b)",
];

/// results of the ten relations on (a, b): Ok(bool) or Err(message)
fn relations(sess: &Sess) -> Vec<Result<bool, String>> {
    RELS.iter()
        .map(|src| match sess.obs(src) {
            Ok(MV::Bool(b)) => Ok(b),
            Ok(other) => Err(format!("non-boolean result {:?}", other)),
            Err(e) => Err(e),
        })
        .collect()
}

fn tname(a: &MV, b: &MV) -> String {
    format!("{}/{}", a.type_name(), b.type_name())
}

fn common_prefix_nontrivial(a: &MV, b: &MV) -> bool {
    match (a, b) {
        (MV::Str(x), MV::Str(y)) => x != y && x.chars().zip(y.chars()).take_while(|(p, q)| p == q).count() > 0,
        (MV::List(x), MV::List(y)) => {
            !a.model_eq(b) && x.iter().zip(y).take_while(|(p, q)| p.model_eq(q)).count() > 0
        }
        (MV::Rec(x), MV::Rec(y)) => {
            x.len() == y.len()
                && x.len() > 1
                && x.iter().map(|(k, _)| k).ne(y.iter().map(|(k, _)| k))
                && x.iter().all(|(k, _)| y.iter().any(|(k2, _)| k2 == k))
        }
        _ => false,
    }
}

pub struct Pair;

pub fn check_pair(a: &MV, b: &MV, ctx: &mut Ctx) -> Outcome {
    let sess = Sess::new();
    sess.bind("a", a);
    sess.bind("b", b);
    let rel = relations(&sess);
    let tn = tname(a, b);
    // a whole-number left operand written as a literal directly against the dot operator
    // (`1.==b`): optional spaces do not change the operator
    if let MV::Num(crate::model::F(x)) = a
        && x.fract() == 0.0
        && *x >= 0.0
        && *x < 1e15
        && !x.is_sign_negative()
    {
        for (i, src) in RELS.iter().enumerate().take(6) {
            let compact = src.replacen("a ", &format!("{}", *x as u64), 1).replacen(" b", "b", 1);
            let got = match sess.obs(&compact) {
                Ok(MV::Bool(v)) => Ok(v),
                Ok(other) => Err(format!("non-boolean result {:?}", other)),
                Err(e) => Err(e),
            };
            let same = match (&got, &rel[i]) {
                (Ok(p), Ok(q)) => p == q,
                (Err(_), Err(_)) => true,
                _ => false,
            };
            if !same {
                fail!(format!("compact-literal:{}", tn), "`{}` gave {:?} but `{}` gave {:?} (b = {})", compact, got, src, rel[i], b.to_source(false));
            }
        }
    }
    let meq = a.model_eq(b);
    let mcmp = a.model_cmp(b);
    ctx.label(match (meq, mcmp) {
        (true, _) => "equal",
        (false, Some(_)) => "ordered-different",
        (false, None) => "unordered-different",
    });
    if common_prefix_nontrivial(a, b) {
        ctx.nontrivial(hash_str(&format!("{:?}|{:?}", a, b)));
    }
    // equality
    match &rel[0] {
        Ok(e) if *e == meq => {}
        other => fail!(
            format!("eq:{}", tn),
            "{} .== {} gave {:?}, model equality is {}",
            a.to_source(false),
            b.to_source(false),
            other,
            meq
        ),
    }
    match &rel[1] {
        Ok(e) if *e == !meq => {}
        other => fail!(format!("ne:{}", tn), "{} .!= {} gave {:?}, expected {}", a.to_source(false), b.to_source(false), other, !meq),
    }
    // ordering operators
    let want: [Option<bool>; 4] = match mcmp {
        Some(o) => [
            Some(o == Ordering::Less),
            Some(o != Ordering::Greater),
            Some(o == Ordering::Greater),
            Some(o != Ordering::Less),
        ],
        None => [None; 4],
    };
    for (i, w) in want.iter().enumerate() {
        let got = &rel[2 + i];
        let ok = match (w, got) {
            (Some(w), Ok(g)) => w == g,
            (None, Err(_)) => true,
            _ => false,
        };
        if !ok {
            fail!(
                format!("order:{}:{}", ["lt", "le", "gt", "ge"][i], tn),
                "{} with a={} b={} gave {:?}; model: {}",
                RELS[2 + i],
                a.to_source(false),
                b.to_source(false),
                got,
                match w {
                    Some(w) => format!("{}", w),
                    None => "an ordering error (values are not mutually comparable)".into(),
                }
            );
        }
    }
    if let Some(o) = mcmp {
        // trichotomy stated on the implementation's own results
        let n = [rel[2].clone(), rel[0].clone(), rel[4].clone()]
            .iter()
            .filter(|r| matches!(r, Ok(true)))
            .count();
        if n != 1 {
            fail!(format!("trichotomy:{}", tn), "{} of .<, .==, .> hold for a={} b={} (model {:?})", n, a.to_source(false), b.to_source(false), o);
        }
    } else if a.type_name() != b.type_name() && rel[0] != Ok(false) {
        fail!(format!("eq:{}", tn), "values of different types compare equal");
    }
    // unchecked built-ins: agree with the operators when those succeed, false otherwise
    let pairs = [(6usize, 4usize, "ugt"), (7, 2, "ult"), (8, 5, "ugte"), (9, 3, "ulte")];
    for (u, op, name) in pairs {
        let want = match &rel[op] {
            Ok(v) => *v,
            Err(_) => false,
        };
        if rel[u] != Ok(want) {
            fail!(
                format!("unchecked:{}:{}", name, tn),
                "{}(a, b) gave {:?} but the operator gave {:?} for a={} b={}",
                name,
                rel[u],
                rel[op],
                a.to_source(false),
                b.to_source(false)
            );
        }
    }
    // symmetry / antisymmetry on the implementation's results
    let sess2 = Sess::new();
    sess2.bind("a", b);
    sess2.bind("b", a);
    let rev = relations(&sess2);
    let st = |r: &Result<bool, String>| r.clone().ok();
    if st(&rev[0]) != st(&rel[0]) {
        fail!(format!("eq-symmetry:{}", tn), "a .== b is {:?} but b .== a is {:?}", rel[0], rev[0]);
    }
    if st(&rel[2]) != st(&rev[4]) || st(&rel[3]) != st(&rev[5]) {
        fail!(format!("order-antisymmetry:{}", tn), "a .< b {:?} vs b .> a {:?}; a .<= b {:?} vs b .>= a {:?}", rel[2], rev[4], rel[3], rev[5]);
    }
    // reflexivity with both names bound to the same heap cell
    let sess3 = Sess::new();
    let v = sess3.bind("a", a);
    sess3.bind_value("b", v);
    if sess3.obs("a .== b") != Ok(MV::Bool(true)) {
        fail!(format!("eq-reflexive:{}", a.type_name()), "a .== a is not true for {}", a.to_source(false));
    }
    // one operand written as a literal in the source, the other one a name (both ways round):
    // the relation does not depend on how an operand is spelled
    {
        let (asrc, bsrc) = (a.to_source(true), b.to_source(true));
        for i in 0..6 {
            for (src, which) in [(RELS[i].replacen("a ", &format!("({}) ", asrc), 1), "left operand as a literal"), (RELS[i].replacen(" b", &format!(" ({})", bsrc), 1), "right operand as a literal")] {
                // bare literal (no parentheses) where the grammar allows it
                let bare = if which.starts_with("left") { RELS[i].replacen("a ", &format!("{} ", asrc), 1) } else { RELS[i].replacen(" b", &format!(" {}", bsrc), 1) };
                for text in [src.clone(), bare] {
                    let got = match sess.obs(&text) {
                        Ok(MV::Bool(v)) => Ok(v),
                        Ok(other) => Err(format!("non-boolean result {:?}", other)),
                        Err(e) => Err(e),
                    };
                    let same = match (&got, &rel[i]) {
                        (Ok(p), Ok(q)) => p == q,
                        (Err(_), Err(_)) => true,
                        _ => false,
                    };
                    // a negative number or a lambda written bare may parse differently: only the parenthesised form is binding then
                    let binding = text == src || matches!(if which.starts_with("left") { a } else { b }, MV::Str(_) | MV::Bool(_) | MV::Null | MV::List(_) | MV::Rec(_));
                    if !same && binding {
                        fail!(format!("literal-operand:{}:{}", RELS[i], tn), "`{}` ({}) gave {:?} but `{}` with both operands bound to names gave {:?}", text, which, got, RELS[i], rel[i]);
                    }
                }
            }
        }
    }
    // containers that hold the same heap cell several times (`x = [1]; [x, x]`): sharing is
    // not observable, so every relation is the one of the unshared copies
    if matches!(a, MV::List(_) | MV::Rec(_) | MV::Str(_)) {
        let base = Sess::new();
        base.bind("a", a);
        base.bind("b", b);
        let shapes: [(&str, &str, MV, MV); 4] = [
            ("[a, a]", "[a, b]", MV::List(vec![a.clone(), a.clone()]), MV::List(vec![a.clone(), b.clone()])),
            ("[a, b, a]", "[a, b, b]", MV::List(vec![a.clone(), b.clone(), a.clone()]), MV::List(vec![a.clone(), b.clone(), b.clone()])),
            ("{p: a, q: a}", "{p: a, q: b}", MV::Rec(vec![("p".into(), a.clone()), ("q".into(), a.clone())]), MV::Rec(vec![("p".into(), a.clone()), ("q".into(), b.clone())])),
            ("[[a], [a]]", "[[a], [b]]", MV::List(vec![MV::List(vec![a.clone()]), MV::List(vec![a.clone()])]), MV::List(vec![MV::List(vec![a.clone()]), MV::List(vec![b.clone()])])),
        ];
        for (ls, rs, lm, rm) in shapes {
            let (Ok(lv), Ok(rv)) = (base.eval_src(ls), base.eval_src(rs)) else { continue };
            for swap in [false, true] {
                let shared = Sess::fresh_env_same_heap(&base);
                let (x, y, xm, ym) = if swap { (rv, lv, &rm, &lm) } else { (lv, rv, &lm, &rm) };
                shared.bind_value("a", x);
                shared.bind_value("b", y);
                let got = relations(&shared);
                let plain = Sess::new();
                plain.bind("a", xm);
                plain.bind("b", ym);
                let want = relations(&plain);
                for i in 0..RELS.len() {
                    let same = match (&got[i], &want[i]) {
                        (Ok(p), Ok(q)) => p == q,
                        (Err(_), Err(_)) => true,
                        _ => false,
                    };
                    if !same {
                        fail!(
                            format!("shared-cells:{}:{}", RELS[i], tn),
                            "with a = {} and b = {}: `{}` on {} and {} built from those cells{} gives {:?}, on unshared copies {:?}",
                            a.to_source(false),
                            b.to_source(false),
                            RELS[i],
                            ls,
                            rs,
                            if swap { " (operands swapped)" } else { "" },
                            got[i],
                            want[i]
                        );
                    }
                }
            }
        }
    }
    Ok(())
}

impl Check for Pair {
    type Case = (MV, MV);
    fn name(&self) -> &'static str {
        "pair"
    }
    fn run(&self, c: &(MV, MV), ctx: &mut Ctx) -> Outcome {
        check_pair(&c.0, &c.1, ctx)
    }
}

pub struct Triple;

fn rel3(a: &MV, b: &MV) -> (Result<bool, String>, Result<bool, String>) {
    let sess = Sess::new();
    sess.bind("a", a);
    sess.bind("b", b);
    let f = |src: &str| match sess.obs(src) {
        Ok(MV::Bool(b)) => Ok(b),
        Ok(o) => Err(format!("{:?}", o)),
        Err(e) => Err(e),
    };
    (f("a .== b"), f("a .<= b"))
}

impl Check for Triple {
    type Case = (MV, MV, MV);
    fn name(&self) -> &'static str {
        "triple"
    }
    fn run(&self, c: &(MV, MV, MV), ctx: &mut Ctx) -> Outcome {
        let (a, b, cc) = c;
        let (eab, lab) = rel3(a, b);
        let (ebc, lbc) = rel3(b, cc);
        let (eac, lac) = rel3(a, cc);
        let tn = format!("{}/{}/{}", a.type_name(), b.type_name(), cc.type_name());
        if eab == Ok(true) && ebc == Ok(true) {
            ctx.label("eq-chain");
            if eac != Ok(true) {
                fail!(format!("eq-transitive:{}", tn), "a .== b and b .== c but a .== c is {:?}: a={} b={} c={}", eac, a.to_source(false), b.to_source(false), cc.to_source(false));
            }
        }
        if let (Ok(x), Ok(y), Ok(z)) = (&lab, &lbc, &lac) {
            ctx.label("all-comparable");
            if !a.model_eq(b) && !b.model_eq(cc) {
                ctx.nontrivial(hash_str(&format!("{:?}|{:?}|{:?}", a, b, cc)));
            }
            if *x && *y && !*z {
                fail!(format!("order-transitive:{}", tn), "a .<= b and b .<= c but not a .<= c: a={} b={} c={}", a.to_source(false), b.to_source(false), cc.to_source(false));
            }
        } else {
            ctx.label("some-incomparable");
        }
        Ok(())
    }
}

fn random_value() -> BoxedStrategy<MV> {
    let p = pool();
    let n = p.len();
    prop_oneof![
        3 => any::<u16>().prop_map(move |i| p[pick_idx(i, n)].clone()),
        2 => crate::gen_::mv_with(
            prop_oneof![crate::gen_::small_f64(), crate::gen_::finite_f64()].boxed(),
            prop::sample::select(vec!["", "a", "ab", "abc", "b", "é", "e\u{301}"]).prop_map(|s| s.to_string()).boxed(),
            prop::sample::select(vec!["a", "b", "c"]).prop_map(|s| s.to_string()).boxed(),
            3,
            4
        ),
    ]
    .boxed()
}

/// a value and a near-copy of it (one leaf changed, an element appended, keys permuted)
fn near_pair() -> BoxedStrategy<(MV, MV)> {
    (random_value(), any::<u16>(), random_value())
        .prop_map(|(a, how, other)| {
            let b = mutate(&a, how, &other);
            (a, b)
        })
        .boxed()
}

fn mutate(a: &MV, how: u16, other: &MV) -> MV {
    match a {
        MV::List(l) => {
            let mut l = l.clone();
            match how % 4 {
                0 => l.push(other.clone()),
                1 => {
                    l.pop();
                }
                2 if !l.is_empty() => {
                    let i = (how as usize / 4) % l.len();
                    l[i] = mutate(&l[i], how / 7, other);
                }
                _ => {}
            }
            MV::List(l)
        }
        MV::Rec(r) => {
            let mut r = r.clone();
            match how % 3 {
                0 => r.reverse(),
                1 if !r.is_empty() => {
                    let i = (how as usize / 3) % r.len();
                    r[i].1 = mutate(&r[i].1, how / 5, other);
                }
                _ => {
                    if !r.iter().any(|(k, _)| k == "zz") {
                        r.push(("zz".to_string(), other.clone()))
                    }
                }
            }
            MV::Rec(r)
        }
        MV::Str(s) => match how % 3 {
            0 => MV::Str(format!("{}a", s)),
            1 => MV::Str(s.chars().skip(1).collect()),
            _ => MV::Str(s.to_uppercase()),
        },
        MV::Num(f) => match how % 3 {
            0 => MV::Num(crate::model::F(-f.0)),
            1 => MV::Num(crate::model::F(crate::model::dec::next_up(f.0))),
            _ => other.clone(),
        },
        _ => other.clone(),
    }
}

pub fn run(ctx: &mut Ctx) {
    let p = pool();
    let n = p.len();
    // all ordered pairs of the pool: exhaustive over the pool
    let pairs = (0..n).flat_map(|i| (0..n).map(move |j| (i, j)));
    let pp = p.clone();
    ctx.run_enum(&Pair, pairs.map(move |(i, j)| (pp[i].clone(), pp[j].clone())), true);
    match ctx.tier {
        crate::engine::Tier::Thorough => {
            let pp = p.clone();
            let triples = (0..n).flat_map(move |i| (0..n).flat_map(move |j| (0..n).map(move |k| (i, j, k))));
            ctx.run_enum(&Triple, triples.map(move |(i, j, k)| (pp[i].clone(), pp[j].clone(), pp[k].clone())), true);
        }
        crate::engine::Tier::Quick => {
            let pp = p.clone();
            let strat = (any::<u16>(), any::<u16>(), any::<u16>()).prop_map(move |(i, j, k)| {
                (pp[pick_idx(i, n)].clone(), pp[pick_idx(j, n)].clone(), pp[pick_idx(k, n)].clone())
            });
            ctx.run_random(&Triple, strat, 30_000);
        }
    }
    // triples drawn from one type family of the pool (mostly mutually comparable)
    {
        let mut fams: Vec<Vec<MV>> = Vec::new();
        for t in ["number", "string", "list", "record", "boolean"] {
            fams.push(p.iter().filter(|v| v.type_name() == t).cloned().collect());
        }
        let strat = (0..fams.len(), any::<u16>(), any::<u16>(), any::<u16>()).prop_map(move |(f, i, j, k)| {
            let fam = &fams[f];
            let m = fam.len();
            (fam[pick_idx(i, m)].clone(), fam[pick_idx(j, m)].clone(), fam[pick_idx(k, m)].clone())
        });
        ctx.run_random(&Triple, strat, ctx.tier.pick(60_000, 600_000));
    }
    let k = ctx.tier.pick(30_000, 400_000);
    ctx.run_random(&Pair, prop_oneof![near_pair(), (random_value(), random_value())], k);
    ctx.run_random(&Triple, (random_value(), random_value(), random_value()), k / 2);
}
