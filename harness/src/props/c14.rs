//! C14 — indexing, spreading and the list / string / record built-ins satisfy their laws.

use crate::blots::Sess;
use crate::engine::{Check, Ctx, Outcome, hash_str, pick_idx};
use crate::fail;
use crate::model::mv::{num, s};
use crate::model::{F, MV};
use proptest::prelude::*;
use serde::{Deserialize, Serialize};
use std::cmp::Ordering;

pub const RULE: &str = "generated lists (length 0..40; numbers with duplicates and +-0, strings, nested lists, mixed types, tagged [key, tag] pairs), strings (ASCII, multi-byte, astral, combining sequences, empty), records and integer / negative / out-of-range index, chunk-size and slice arguments; every law of the statement is evaluated through the evaluator (built-in calls, index / field access, spread syntax) and checked on the serialised results against harness-side definitions. Non-trivial = a list of length >= 3 containing a duplicate, or a string with a non-ASCII character; distinct by the serialised case.";
pub const ASSUMPTIONS: &[&str] = &[
    "a string's character sequence is its sequence of Unicode scalar values (what indexing and spreading expose)",
    "a fractional index denotes the position it truncates to, towards zero (the evaluator converts the index with `as i64`; the quantifier lists fractional index arguments, so some reading has to decide them): l[-0.5] is l[0], l[-1.5] is l[-1]; the bounds of range are read the same way (range(-2.5, 1) is [-2, -1, 0])",
    "fractional slice bounds, negative slice bounds and out-of-range slice bounds have no law in the statement; they are exercised only for absence of crashes (C01) - except that a string and the list of its characters must agree on whether a slice beyond the end succeeds",
    "stability is observable only between elements that compare equal but are distinguishable (0 / -0, tagged pairs)",
];

#[derive(Clone, Debug, Serialize, Deserialize)]
pub struct ListCase {
    pub l: Vec<MV>,
    pub m: Vec<MV>,
    pub n: u8,
    pub a: u8,
    pub b: u8,
    pub i: i8,
}

#[derive(Clone, Debug, Serialize, Deserialize)]
pub struct StrCase {
    pub s: String,
    pub d: String,
    pub a: u8,
    pub b: u8,
    pub i: i8,
}

#[derive(Clone, Debug, Serialize, Deserialize)]
pub struct RecCase {
    pub r: Vec<(String, MV)>,
    pub probe: String,
}

fn list_class(l: &[MV]) -> &'static str {
    if l.is_empty() {
        return "empty";
    }
    let t0 = l[0].type_name();
    if l.iter().all(|x| x.type_name() == t0) {
        match t0 {
            "number" => "numbers",
            "string" => "strings",
            "list" => "lists",
            _ => "other-homogeneous",
        }
    } else {
        "mixed"
    }
}

fn want(sess: &Sess, law: &str, cls: &str, src: &str, expected: &MV) -> Outcome {
    match sess.probe(src) {
        Ok(v) if v.identical(expected) => Ok(()),
        other => fail!(format!("{}:{}", law, cls), "`{}` = {:?}, the law requires {:?}", src, other, expected),
    }
}

fn all_comparable(l: &[MV]) -> bool {
    for (i, a) in l.iter().enumerate() {
        for b in &l[i..] {
            if a.model_cmp(b).is_none() {
                return false;
            }
        }
    }
    true
}

fn is_permutation(a: &[MV], b: &[MV]) -> bool {
    if a.len() != b.len() {
        return false;
    }
    let mut used = vec![false; b.len()];
    'outer: for x in a {
        for (j, y) in b.iter().enumerate() {
            if !used[j] && x.identical(y) {
                used[j] = true;
                continue 'outer;
            }
        }
        return false;
    }
    true
}

fn stable_sorted(l: &[MV], key: &dyn Fn(&MV) -> MV) -> Vec<MV> {
    let mut v: Vec<MV> = l.to_vec();
    // insertion sort: obviously stable
    for i in 1..v.len() {
        let mut j = i;
        while j > 0 && key(&v[j - 1]).model_cmp(&key(&v[j])) == Some(Ordering::Greater) {
            v.swap(j - 1, j);
            j -= 1;
        }
    }
    v
}

pub struct ListLaws;

impl Check for ListLaws {
    type Case = ListCase;
    fn name(&self) -> &'static str {
        "list-laws"
    }
    fn journal(&self) -> bool {
        true
    }
    fn run(&self, c: &ListCase, ctx: &mut Ctx) -> Outcome {
        let sess = Sess::new();
        let l = &c.l;
        let m = &c.m;
        sess.bind("l", &MV::List(l.clone()));
        sess.bind("m", &MV::List(m.clone()));
        sess.bind("n", &num(c.n as f64));
        sess.bind("a", &num(c.a as f64));
        sess.bind("b", &num(c.b as f64));
        sess.bind("i", &num(c.i as f64));
        let cls = list_class(l);
        ctx.label(cls);
        let has_dup = l.iter().enumerate().any(|(i, x)| l[..i].iter().any(|y| y.model_eq(x)));
        if l.len() >= 3 && has_dup {
            ctx.nontrivial(hash_str(&format!("{:?}", c)));
        }
        let len = l.len();

        // sort
        let sorted = match sess.probe("sort(l)") {
            Ok(MV::List(v)) => v,
            other => fail!(format!("sort:result:{}", cls), "sort(l) = {:?} for l = {}", other, MV::List(l.clone()).to_source(false)),
        };
        if !is_permutation(&sorted, l) {
            fail!(format!("sort:permutation:{}", cls), "sort({}) = {} is not a permutation", MV::List(l.clone()).to_source(false), MV::List(sorted).to_source(false));
        }
        if all_comparable(l) {
            ctx.label("sort:comparable");
            let exp = stable_sorted(l, &|x| x.clone());
            if !MV::List(sorted.clone()).identical(&MV::List(exp.clone())) {
                let ordered = sorted.windows(2).all(|w| w[0].model_cmp(&w[1]) != Some(Ordering::Greater));
                fail!(
                    format!("sort:{}:{}", if ordered { "stability" } else { "order" }, cls),
                    "sort({}) = {}, expected the stable ascending order {}",
                    MV::List(l.clone()).to_source(false),
                    MV::List(sorted).to_source(false),
                    MV::List(exp).to_source(false)
                );
            }
        }
        // sort_by with model-computable keys
        let first = |x: &MV| match x {
            MV::List(v) if !v.is_empty() => v[0].clone(),
            _ => MV::Null,
        };
        let pairs_ok = l.iter().all(|x| matches!(x, MV::List(v) if v.len() == 2));
        let mut keyfns: Vec<(&str, Box<dyn Fn(&MV) -> MV>)> = vec![("x => 0", Box::new(|_| num(0.0))), ("x => x", Box::new(|x: &MV| x.clone()))];
        if pairs_ok {
            keyfns.push(("p => p[0]", Box::new(first)));
        }
        // key functions that could take more than the element are still called with the element alone
        keyfns.push(("(x, i?) => if i == null then x else 0", Box::new(|x: &MV| x.clone())));
        keyfns.push(("(...r) => if len(r) == 1 then r[0] else 0", Box::new(|x: &MV| x.clone())));
        if l.iter().all(|x| matches!(x, MV::Num(F(v)) if v.is_finite())) {
            keyfns.push(("round", Box::new(|x: &MV| match x { MV::Num(F(v)) => num(v.round()), o => o.clone() })));
            keyfns.push(("max", Box::new(|x: &MV| x.clone())));
        }
        if l.iter().all(|x| matches!(x, MV::Num(_))) {
            keyfns.push(("x => -x", Box::new(|x: &MV| match x { MV::Num(F(v)) => num(-v), o => o.clone() })));
            keyfns.push(("x => x % 3", Box::new(|x: &MV| match x { MV::Num(F(v)) => num(v % 3.0), o => o.clone() })));
        }
        for (src, key) in &keyfns {
            let keys: Vec<MV> = l.iter().map(|x| key(x)).collect();
            let got = match sess.probe(&format!("sort_by(l, {})", src)) {
                Ok(MV::List(v)) => v,
                other => fail!(format!("sort_by:result:{}", cls), "sort_by(l, {}) = {:?}", src, other),
            };
            if !is_permutation(&got, l) {
                fail!(format!("sort_by:permutation:{}", cls), "sort_by({}, {}) = {} is not a permutation", MV::List(l.clone()).to_source(false), src, MV::List(got).to_source(false));
            }
            if all_comparable(&keys) && !keys.iter().any(|k| k.has_nan()) {
                let exp = stable_sorted(l, key.as_ref());
                if !MV::List(got.clone()).identical(&MV::List(exp.clone())) {
                    let ordered = got.windows(2).all(|w| key(&w[0]).model_cmp(&key(&w[1])) != Some(Ordering::Greater));
                    fail!(
                        format!("sort_by:{}:{}", if ordered { "stability" } else { "order" }, cls),
                        "sort_by({}, {}) = {}, expected {}",
                        MV::List(l.clone()).to_source(false),
                        src,
                        MV::List(got).to_source(false),
                        MV::List(exp).to_source(false)
                    );
                }
            }
        }
        // key functions that fail (on some or all elements, or because they want two arguments):
        // whatever sort_by makes of them, its result is a permutation of its input
        for src in ["x => -x", "r => r.a", "x => x[0]", "(a, b) => a", "x => nope_undefined", "x => x + 1", "x => len(x)", "7"] {
            match sess.probe(&format!("sort_by(l, {})", src)) {
                Ok(MV::List(got)) => {
                    if !is_permutation(&got, l) {
                        fail!(format!("sort_by:permutation-with-failing-key:{}", cls), "sort_by({}, {}) = {} is not a permutation of its input", MV::List(l.clone()).to_source(false), src, MV::List(got).to_source(false));
                    }
                }
                Ok(other) => fail!(format!("sort_by:result:{}", cls), "sort_by(l, {}) = {:?}", src, other),
                Err(_) => {}
            }
        }
        // unique: first member of each .== class, in order
        let mut uniq: Vec<MV> = Vec::new();
        for x in l {
            if !uniq.iter().any(|y| y.model_eq(x)) {
                uniq.push(x.clone());
            }
        }
        if !l.iter().any(|x| x.has_nan()) {
            want(&sess, "unique", cls, "unique(l)", &MV::List(uniq))?;
        }
        // reverse
        let mut rev = l.clone();
        rev.reverse();
        want(&sess, "reverse", cls, "reverse(l)", &MV::List(rev))?;
        want(&sess, "reverse:involution", cls, "reverse(reverse(l))", &MV::List(l.clone()))?;
        // concat / spread
        let mut cat = l.clone();
        cat.extend(m.iter().cloned());
        want(&sess, "concat", cls, "concat(l, m)", &MV::List(cat.clone()))?;
        want(&sess, "spread:list-concat", cls, "[...l, ...m]", &MV::List(cat.clone()))?;
        want(&sess, "concat:three", cls, "concat(l, m, l)", &MV::List(cat.iter().chain(l.iter()).cloned().collect()))?;
        want(&sess, "spread:call", cls, "((...r) => r)(...l)", &MV::List(l.clone()))?;
        want(&sess, "spread:mixed", cls, "[i, ...l, n]", &MV::List(std::iter::once(num(c.i as f64)).chain(l.iter().cloned()).chain(std::iter::once(num(c.n as f64))).collect()))?;
        want(&sess, "len", cls, "len(l)", &num(len as f64))?;
        // chunk / flatten
        if c.n == 0 {
            if sess.probe("chunk(l, n)").is_ok() {
                fail!("chunk:zero-size-accepted", "chunk(l, 0) did not fail");
            }
        } else {
            let n = c.n as usize;
            let chunks: Vec<MV> = l.chunks(n).map(|ch| MV::List(ch.to_vec())).collect();
            want(&sess, "chunk", cls, "chunk(l, n)", &MV::List(chunks))?;
            want(&sess, "flatten-chunk", cls, "flatten(chunk(l, n))", &MV::List(l.clone()))?;
        }
        // chunk sizes that are not whole: refused, or the chunks still rebuild the list
        for size in ["0.5", "0.999", "1 / 1000000000", "1.5", "2.25", "0 / 0", "0 - 0.5", "n + 0.5", "0 - 1", "1 / 0"] {
            match sess.probe(&format!("chunk(l, {})", size)) {
                Err(_) => {}
                Ok(MV::List(chs)) => {
                    let mut rebuilt = Vec::new();
                    let mut all_lists = true;
                    for ch in &chs {
                        match ch {
                            MV::List(v) if !v.is_empty() || l.is_empty() => rebuilt.extend(v.iter().cloned()),
                            _ => all_lists = false,
                        }
                    }
                    if !all_lists || !MV::List(rebuilt.clone()).identical(&MV::List(l.clone())) {
                        fail!(format!("chunk:fractional-size:{}", cls), "chunk({}, {}) = {} does not rebuild the list", MV::List(l.clone()).to_source(false), size, MV::List(chs).to_source(false));
                    }
                }
                Ok(other) => fail!(format!("chunk:fractional-size:{}", cls), "chunk(l, {}) = {:?}", size, other),
            }
        }
        // flatten: one level
        let mut flat = Vec::new();
        for x in l {
            match x {
                MV::List(v) => flat.extend(v.iter().cloned()),
                o => flat.push(o.clone()),
            }
        }
        want(&sess, "flatten", cls, "flatten(l)", &MV::List(flat))?;
        // zip with null padding
        let zl = len.max(m.len());
        let zipped: Vec<MV> = (0..zl)
            .map(|k| MV::List(vec![l.get(k).cloned().unwrap_or(MV::Null), m.get(k).cloned().unwrap_or(MV::Null)]))
            .collect();
        want(&sess, "zip", cls, "zip(l, m)", &MV::List(zipped))?;
        let zipped3: Vec<MV> = (0..zl)
            .map(|k| MV::List(vec![l.get(k).cloned().unwrap_or(MV::Null), m.get(k).cloned().unwrap_or(MV::Null), l.get(k).cloned().unwrap_or(MV::Null)]))
            .collect();
        want(&sess, "zip:three", cls, "zip(l, m, l)", &MV::List(zipped3))?;
        // slice within bounds
        let (a, b) = ((c.a as usize).min(c.b as usize), (c.a as usize).max(c.b as usize));
        if b <= len {
            sess.bind("a", &num(a as f64));
            sess.bind("b", &num(b as f64));
            want(&sess, "slice", cls, "slice(l, a, b)", &MV::List(l[a..b].to_vec()))?;
        }
        // head / tail
        want(&sess, "head", cls, "head(l)", &l.first().cloned().unwrap_or(MV::Null))?;
        want(&sess, "tail", cls, "tail(l)", &MV::List(l.iter().skip(1).cloned().collect()))?;
        if len > 0 {
            want(&sess, "head-tail-rebuild", cls, "[head(l), ...tail(l)]", &MV::List(l.clone()))?;
        }
        // indexing
        let i = c.i as i64;
        let exp = if i >= 0 { l.get(i as usize).cloned() } else if len as i64 + i >= 0 { l.get((len as i64 + i) as usize).cloned() } else { None };
        want(&sess, "index", cls, "l[i]", &exp.unwrap_or(MV::Null))?;
        if len > 0 {
            want(&sess, "index:first", cls, "l[0]", &l[0])?;
            want(&sess, "index:last", cls, "l[-1]", &l[len - 1])?;
        }
        want(&sess, "index:beyond", cls, "l[len(l)]", &MV::Null)?;
        // fractional indices denote the position they truncate to (towards zero)
        for (num_, den) in [(1i64, 2i64), (-1, 2), (-1, 4), (-9, 10), (3, 2), (-3, 2), (5, 4), (-7, 4)] {
            let f = num_ as f64 / den as f64;
            let tr = f.trunc() as i64;
            let exp = if f.trunc() == 0.0 || tr > 0 { l.get(tr.max(0) as usize).cloned() } else if len as i64 + tr >= 0 { l.get((len as i64 + tr) as usize).cloned() } else { None };
            sess.bind("fi", &num(f));
            want(&sess, "index:fractional", cls, "l[fi]", &exp.clone().unwrap_or(MV::Null))?;
            want(&sess, "index:fractional-computed", cls, &format!("l[{} / {}]", num_, den).replace("l[-", "l[0 - "), &exp.unwrap_or(MV::Null))?;
        }
        // includes on lists is membership under .== (as unique and the dot operators use it)
        if len > 0 {
            let j = (c.i.unsigned_abs() as usize) % len;
            sess.bind("j", &num(j as f64));
            want(&sess, "includes:member", cls, "includes(l, l[j])", &MV::Bool(true))?;
            want(&sess, "includes:member-copy", cls, "includes([...l], [...l, 0][j])", &MV::Bool(true))?;
        }
        want(&sess, "includes:absent", cls, "includes(l, \"\\u{0}not a member\")", &MV::Bool(false))?;
        want(&sess, "includes:agrees-with-some", cls, "includes(l, m[0]) == some(l, x => x .== m[0])", &MV::Bool(true))?;
        want(&sess, "index:minus-len", cls, "l[0 - len(l)]", &if len > 0 { l[0].clone() } else { MV::Null })?;
        want(&sess, "index:below-minus-len", cls, "l[0 - len(l) - 1]", &MV::Null)?;
        if len > 1 {
            want(&sess, "index:second-last", cls, "l[-2]", &l[len - 2])?;
        }
        // fractional bounds denote the whole numbers they truncate to (towards zero), like indices
        for (a_src, b_src, lo, hi) in [("0 - 2.5", "1", -2i64, 1i64), ("0 - 3", "0 - 0.5", -3, 0), ("0 - 1.5", "0 - 0.5", -1, 0), ("0.9", "2.1", 0, 2), ("0 - 0.9", "0.9", 0, 0), ("1.5", "4.5", 1, 4)] {
            let want_r: Vec<MV> = (lo..hi).map(|v| num(v as f64)).collect();
            want(&sess, "range:fractional-bounds", cls, &format!("range({}, {})", a_src, b_src), &MV::List(want_r))?;
        }
        // range
        let (ra, rb) = (c.i as i64, c.i as i64 + c.n as i64);
        sess.bind("ra", &num(ra as f64));
        sess.bind("rb", &num(rb as f64));
        want(&sess, "range", "ints", "range(ra, rb)", &MV::List((ra..rb).map(|k| num(k as f64)).collect()))?;
        want(&sess, "range:one-arg", "ints", "range(n)", &MV::List((0..c.n as i64).map(|k| num(k as f64)).collect()))?;
        // group_by / count_by partition the list
        let keyed: Option<(&str, Vec<String>)> = if pairs_ok && l.iter().all(|x| matches!(first(x), MV::Str(_))) {
            Some(("p => p[0]", l.iter().map(|x| match first(x) { MV::Str(k) => k, _ => unreachable!() }).collect()))
        } else if l.iter().all(|x| matches!(x, MV::Num(F(v)) if v.is_finite())) {
            Some((
                "x => to_string(x % 3)",
                l.iter().map(|x| match x { MV::Num(F(v)) => MV::Num(F(v % 3.0)).to_sv(), _ => unreachable!() }).map(|sv| match sv { blots_core::values::SerializableValue::Number(n) => n.to_string(), _ => unreachable!() }).collect(),
            ))
        } else {
            None
        };
        if let Some((fsrc, keys)) = keyed {
            ctx.label("group_by");
            let mut groups: Vec<(String, Vec<MV>)> = Vec::new();
            for (x, k) in l.iter().zip(&keys) {
                match groups.iter_mut().find(|(g, _)| g == k) {
                    Some((_, v)) => v.push(x.clone()),
                    None => groups.push((k.clone(), vec![x.clone()])),
                }
            }
            let exp_g = MV::Rec(groups.iter().map(|(k, v)| (k.clone(), MV::List(v.clone()))).collect());
            let exp_c = MV::Rec(groups.iter().map(|(k, v)| (k.clone(), num(v.len() as f64))).collect());
            want(&sess, "group_by", cls, &format!("group_by(l, {})", fsrc), &exp_g)?;
            want(&sess, "count_by", cls, &format!("count_by(l, {})", fsrc), &exp_c)?;
            want(&sess, "count_by:sums-to-len", cls, &format!("sum([0, ...values(count_by(l, {}))])", fsrc), &num(len as f64))?;
            // a key function with a spare optional parameter is called with the element alone
            let opt = format!("(e, spare?) => if spare == null then ({})(e) else \"called with two arguments\"", fsrc);
            want(&sess, "group_by:optional-parameter", cls, &format!("group_by(l, {})", opt), &exp_g)?;
            want(&sess, "count_by:optional-parameter", cls, &format!("count_by(l, {})", opt), &exp_c)?;
        }
        Ok(())
    }
}

pub struct StrLaws;

impl Check for StrLaws {
    type Case = StrCase;
    fn name(&self) -> &'static str {
        "string-laws"
    }
    fn run(&self, c: &StrCase, ctx: &mut Ctx) -> Outcome {
        let sess = Sess::new();
        let chars: Vec<char> = c.s.chars().collect();
        let cls = if c.s.is_empty() { "empty" } else if c.s.is_ascii() { "ascii" } else { "non-ascii" };
        ctx.label(cls);
        if !c.s.is_ascii() {
            ctx.nontrivial(hash_str(&format!("{:?}", c)));
        }
        sess.bind("s", &s(&c.s));
        sess.bind("d", &s(&c.d));
        sess.bind("i", &num(c.i as f64));
        let n = chars.len();
        let cs: Vec<MV> = chars.iter().map(|ch| MV::Str(ch.to_string())).collect();
        want(&sess, "strfn:spread", cls, "[...s]", &MV::List(cs.clone()))?;
        want(&sess, "strfn:len", cls, "len(s)", &num(n as f64))?;
        want(&sess, "strfn:len-vs-spread", cls, "len(s) == len([...s])", &MV::Bool(true))?;
        if n > 0 {
            want(&sess, "strfn:head", cls, "head(s)", &cs[0])?;
            want(&sess, "strfn:head-vs-index", cls, "head(s) == s[0]", &MV::Bool(true))?;
            want(&sess, "strfn:head-tail-rebuild", cls, "head(s) + tail(s)", &s(&c.s))?;
            want(&sess, "strfn:index-last", cls, "s[-1]", &cs[n - 1])?;
        }
        want(&sess, "strfn:tail", cls, "tail(s)", &MV::Str(chars.iter().skip(1).collect()))?;
        let i = c.i as i64;
        let exp = if i >= 0 { cs.get(i as usize).cloned() } else if n as i64 + i >= 0 { cs.get((n as i64 + i) as usize).cloned() } else { None };
        want(&sess, "strfn:index", cls, "s[i]", &exp.unwrap_or(MV::Null))?;
        want(&sess, "strfn:index-beyond", cls, "s[len([...s])]", &MV::Null)?;
        let (a, b) = ((c.a as usize).min(c.b as usize), (c.a as usize).max(c.b as usize));
        if b <= n {
            sess.bind("a", &num(a as f64));
            sess.bind("b", &num(b as f64));
            want(&sess, "strfn:slice", cls, "slice(s, a, b)", &MV::Str(chars[a..b].iter().collect()))?;
            want(&sess, "strfn:slice-vs-spread", cls, "slice(s, a, b) == join(slice([...s], a, b), \"\")", &MV::Bool(true))?;
        }
        // a string is the sequence of its characters also for bounds beyond its end: slicing it
        // succeeds (with the same characters) exactly when slicing its spread characters does
        for (lo, hi) in [(a, n + 1), (a.min(n), n + 1 + (c.b as usize % 7)), (0, c.s.len()), (0, c.s.len() + 1), (n, n), (n + 1, n + 2)] {
            sess.bind("lo", &num(lo as f64));
            sess.bind("hi", &num(hi as f64));
            let on_string = sess.probe("slice(s, lo, hi)");
            let on_chars = sess.probe("join(slice([...s], lo, hi), \"\")");
            let same = match (&on_string, &on_chars) {
                (Ok(x), Ok(y)) => x.identical(y),
                (Err(_), Err(_)) => true,
                _ => false,
            };
            if !same {
                fail!(
                    format!("strfn:slice-beyond-end-vs-spread:{}", cls),
                    "s = {:?} ({} characters, {} bytes): slice(s, {}, {}) = {:?} but slicing [...s] gives {:?}",
                    c.s, n, c.s.len(), lo, hi, on_string, on_chars
                );
            }
        }
        if !c.d.is_empty() {
            want(&sess, "split-join", cls, "join(split(s, d), d)", &s(&c.s))?;
            let parts: Vec<MV> = c.s.split(c.d.as_str()).map(s).collect();
            want(&sess, "split", cls, "split(s, d)", &MV::List(parts))?;
        }
        // includes on strings is substring search over the same characters
        want(&sess, "strfn:includes", cls, "includes(s, d)", &MV::Bool(c.s.contains(c.d.as_str())))?;
        if b <= n {
            want(&sess, "strfn:includes-own-slice", cls, "includes(s, slice(s, a, b))", &MV::Bool(true))?;
        }
        want(&sess, "join-chars", cls, "join([...s], \"\")", &s(&c.s))?;
        want(&sess, "spread:call-string", cls, "((...r) => r)(...s)", &MV::List(cs))?;
        Ok(())
    }
}

pub struct RecLaws;

impl Check for RecLaws {
    type Case = RecCase;
    fn name(&self) -> &'static str {
        "record-laws"
    }
    fn run(&self, c: &RecCase, ctx: &mut Ctx) -> Outcome {
        let sess = Sess::new();
        let r = &c.r;
        sess.bind("r", &MV::Rec(r.clone()));
        sess.bind("probe", &s(&c.probe));
        let cls = if r.is_empty() { "empty" } else { "record" };
        ctx.label(cls);
        if r.len() >= 2 {
            ctx.nontrivial(hash_str(&format!("{:?}", c)));
        }
        let keys: Vec<MV> = r.iter().map(|(k, _)| s(k)).collect();
        let vals: Vec<MV> = r.iter().map(|(_, v)| v.clone()).collect();
        let ents: Vec<MV> = r.iter().map(|(k, v)| MV::List(vec![s(k), v.clone()])).collect();
        want(&sess, "keys", cls, "keys(r)", &MV::List(keys))?;
        want(&sess, "values", cls, "values(r)", &MV::List(vals))?;
        want(&sess, "entries", cls, "entries(r)", &MV::List(ents.clone()))?;
        want(&sess, "spread:record-in-list", cls, "[...r]", &MV::List(ents.clone()))?;
        want(&sess, "spread:record-in-record", cls, "{...r}", &MV::Rec(r.clone()))?;
        want(&sess, "spread:call-record", cls, "((...x) => x)(...r)", &MV::List(ents))?;
        want(&sess, "keys-values-agree", cls, "keys(r) via (k => r[k])", &MV::List(r.iter().map(|(_, v)| v.clone()).collect()))?;
        for (k, v) in r {
            sess.bind("k", &s(k));
            want(&sess, "field-access:index", cls, "r[k]", v)?;
            if crate::model::mv::is_ident(k) && !crate::model::mv::RESERVED.contains(&k.as_str()) {
                want(&sess, "field-access:dot", cls, &format!("r.{}", k), v)?;
            }
        }
        let absent = r.iter().all(|(k, _)| k != &c.probe);
        if absent {
            want(&sess, "field-access:absent", cls, "r[probe]", &MV::Null)?;
            want(&sess, "field-access:absent-dot", cls, "r.no_such_field_zz", &MV::Null)?;
        }
        Ok(())
    }
}

fn elem_pool() -> Vec<MV> {
    vec![
        num(0.0), num(-0.0), num(1.0), num(2.0), num(2.0), num(3.0), num(-1.0), num(0.5), num(10.0), num(1e15), num(f64::INFINITY), num(f64::NEG_INFINITY),
        s(""), s("a"), s("b"), s("ab"), s("é"), MV::Bool(true), MV::Bool(false), MV::Null,
        // strings spelling other values (a de-duplication keyed on text would merge them)
        s("true"), s("false"), s("null"), s("1"), s("0"), s("-0"), s("[]"), s("[1, 2]"), s("{}"),
        MV::List(vec![]), MV::List(vec![num(0.0)]), MV::List(vec![num(-0.0)]), MV::List(vec![num(1.0), num(2.0)]), MV::List(vec![num(1.0)]),
        MV::Rec(vec![("a".into(), num(1.0))]), MV::Rec(vec![]),
    ]
}

fn list_strategy(max: usize) -> BoxedStrategy<Vec<MV>> {
    let pool = elem_pool();
    let np = pool.len();
    prop_oneof![
        // numbers with many duplicates and signed zeros
        3 => prop::collection::vec(prop_oneof![3 => (-3i32..4).prop_map(|k| num(k as f64)), 1 => Just(num(-0.0)), 1 => Just(num(0.5))], 0..max),
        // strings
        1 => prop::collection::vec(prop::sample::select(vec!["", "a", "b", "ab", "abc", "é", "B"]).prop_map(s), 0..max),
        // tagged pairs [key, tag]: numeric keys
        2 => prop::collection::vec(-2i32..3, 0..max).prop_map(|ks| ks.iter().enumerate().map(|(t, k)| MV::List(vec![num(*k as f64), num(t as f64)])).collect()),
        // tagged pairs with string keys (group_by)
        2 => prop::collection::vec(prop::sample::select(vec!["x", "y", "z", "", "é"]), 0..max).prop_map(|ks| ks.iter().enumerate().map(|(t, k)| MV::List(vec![s(k), num(t as f64)])).collect()),
        // lists of lists (lexicographic order, flatten)
        1 => prop::collection::vec(prop::collection::vec((-1i32..3).prop_map(|k| num(k as f64)), 0..3).prop_map(MV::List), 0..max),
        // mixed
        2 => prop::collection::vec(any::<u16>().prop_map(move |i| pool[pick_idx(i, np)].clone()), 0..max),
    ]
    .boxed()
}

pub fn string_strategy() -> BoxedStrategy<String> {
    prop_oneof![
        3 => crate::gen_::any_string(),
        2 => prop::collection::vec(prop::sample::select(vec!['a', 'b', ',', ' ', 'é', '日', '😀', '\u{301}', 'ß', '-']), 0..16).prop_map(|v| v.into_iter().collect()),
        // text with line structure: LF, CRLF, lone CR, tabs, trailing and doubled line breaks
        2 => prop::collection::vec(prop::sample::select(vec!["a", "bc", "\n", "\r\n", "\r", "\t", " ", "é", "\n\n", ","]), 0..12).prop_map(|v| v.concat()),
    ]
    .boxed()
}

pub fn run(ctx: &mut Ctx) {
    let ncases = ctx.tier.pick(12_000, 300_000);
    let lists = (list_strategy(41), list_strategy(9), 0u8..8, 0u8..45, 0u8..45, -45i8..45).prop_map(|(l, m, n, a, b, i)| ListCase { l, m, n, a, b, i });
    ctx.run_random(&ListLaws, lists, ncases);
    let small = (list_strategy(7), list_strategy(4), 0u8..5, 0u8..8, 0u8..8, -8i8..8).prop_map(|(l, m, n, a, b, i)| ListCase { l, m, n, a, b, i });
    ctx.run_random(&ListLaws, small, ncases);
    let strs = (string_strategy(), prop::sample::select(vec![",", " ", "a", "ab", "é", "😀", "--", "\u{301}", "\n", "\r\n", "\r", "\t", "\n\n"]), 0u8..18, 0u8..18, -18i8..18)
        .prop_map(|(s, d, a, b, i)| StrCase { s, d: d.to_string(), a, b, i });
    ctx.run_random(&StrLaws, strs, ncases * 2);
    let recs = (
        prop::collection::vec((crate::gen_::any_key(), crate::gen_::data_mv(2)), 0..7),
        crate::gen_::any_key(),
    )
        .prop_map(|(mut r, probe)| {
            let mut seen = std::collections::HashSet::new();
            r.retain(|(k, _)| k != "__blots_function" && seen.insert(k.clone()));
            RecCase { r, probe }
        });
    ctx.run_random(&RecLaws, recs, ncases);
}
