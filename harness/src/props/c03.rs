//! C03 — bindings are immutable and scoped: a bound name never changes or leaks.

use crate::blots::Sess;
use crate::engine::{Check, Ctx, Outcome, hash_str};
use crate::fail;
use crate::gen_::expr::{E, Tape, print_min};
use crate::gen_::typed;
use crate::model::MV;
use blots_core::environment::verif_hooks;
use proptest::prelude::*;
use serde::{Deserialize, Serialize};
use std::collections::BTreeMap;

pub const RULE: &str = "(D0) every protected name (16 keywords / inputs / constants / inf / infinity and every name of get_built_in_function_idents()) x 15 binding forms (plain, output, nested in parentheses / list / record / operator chain / conditional, function value; inside a lambda body or do-block; and as a do-block local / parameter that is read back - which must fail or give the bound value): the top-level forms must fail, and in all forms what typeof / to_string / field access observe of the name at top level, and the set of root names, must be unchanged. (D0b) every protected name as the parameter (required, optional, rest) or do-block local of a function that arrives as a JSON input: loading or calling it must fail, or the argument is read back. (D1) every sequence up to length 4 (thorough: 5 over a 29-template core) over an alphabet of statement templates on names a, b: bind, rebind, copy, nested assignment `a = (b = 5) + 1`, self-nested `a = (a = 1) + 1`, list-nested, partially failing `[a = 1, nope]`, `output a`, `output a = 1`, do-block shadowing (also by the block's `return name = ...` statement) / nested assignment inside a do-block / do-block returning a closure, functions whose parameters reuse a / b, calls, closures over a (reading it, rebinding it in a do-block) called at top level and from inside a function whose parameter is called a, assignment inside a lambda body (with parameters; anonymous without parameters, with and without captured names), failing statements, attempts to bind keywords, inputs, constants and built-in names; each statement is evaluated like a REPL line and compared with a bind-once reference model (success / failure, the whole root environment, values). (D2) random sessions of 5-40 generated statements with rebinding attempts and failing statements, checked with history invariants: snapshot monotonicity, no insert into the root environment for a key it holds (hook H2), reserved names never bound, root names are a subset of the names assigned in top-level position. (D3) sessions of 2-7 one-line statements (heap-valued bindings, nested bindings inside lines that fail later, rebinding attempts, allocating lines) typed into the interactive CLI on a pseudo-terminal; afterwards every name is printed and must show what the same lines give in-process. (D4) 6 ways of keeping an anonymous function whose body mentions an unbound name x 7 inner scopes that bind that name to the function value (do-block local, parameter, nested block, block inside a function / a via callback, failing block, via a second local) x 4 names: what the function does when reached through its container (call results and failures, display, self-equality) must be the same before and after, and the name must not appear at top level. (D5) `x = C[(x = V)]` and `output x = C[(x = V)]` for 38 contexts C (operands, list / record items, computed keys, list / record / argument spreads, index and field targets, conditions and branches, prefix / postfix operands, ??, pipelines, calls): the statement must be refused, x keeps the value of the inner binding and the root environment is never overwritten. (D5 also has heap values bound inside an operand of `+`, an index, a spread or a built-in that builds a new value from them.) (D6, further) functions re-entered while they are running, past a do-block local / parameter / callback parameter named like a value they captured, still read the captured value. (D6) a self-recursive named function handed over by value (argument, alias, via / map element) to a parameter list, do-block or callback that binds the function's own name to something else: the function still calls itself. Non-trivial = the history contains a (re)binding attempt on an already bound or reserved name, or a shadowing scope; distinct by the statement sequence.";
pub const ASSUMPTIONS: &[&str] = &[
    "hook H2 (thread-local log of Environment::insert) is a monitor only; with the feature off the code is unchanged",
    "a statement that fails half-way may keep the bindings its already-evaluated inner assignments made (the statement only requires that bound names never change)",
];

// ---- D1: template alphabet and reference model -------------------------------------------

#[derive(Clone, Debug, PartialEq)]
enum V {
    Num(f64),
    /// x => x + 5 (defined in a do-block with local t = 5)
    FnAdd5,
    /// (a, b) => a + b
    FnSum2,
    /// () => a with a captured (Some) or late-bound (None)
    FnReadA(Option<Box<V>>),
    /// () => do { a = a + 1; return a } with a captured (Some) or late-bound (None)
    FnIncA(Option<Box<V>>),
}

type Env = BTreeMap<&'static str, V>;

pub const TEMPLATES: &[&str] = &[
    /* 0 */ "a = 1",
    /* 1 */ "b = 2",
    /* 2 */ "a = 3",
    /* 3 */ "b = a",
    /* 4 */ "a = b + 1",
    /* 5 */ "a = (b = 5) + 1",
    /* 6 */ "a = (a = 1) + 1",
    /* 7 */ "[a = 1, b = 2]",
    /* 8 */ "[a = 1, nope]",
    /* 9 */ "output a",
    /* 10 */ "output a = 1",
    /* 11 */ "do {\n  a = 9\n  return a\n}",
    /* 12 */ "do {\n  return (b = 7) + 0\n}",
    /* 13 */ "a = do {\n  t = 5\n  return x => x + t\n}",
    /* 14 */ "a(1)",
    /* 15 */ "b = (a, b) => a + b",
    /* 16 */ "b(10, 20)",
    /* 17 */ "b = () => a",
    /* 18 */ "b()",
    /* 19 */ "nope",
    /* 20 */ "1 + \"x\"",
    /* 21 */ "inputs = 1",
    /* 22 */ "constants = 1",
    /* 23 */ "sum = 1",
    /* 24 */ "if = 1",
    /* 25 */ "true = 1",
    /* 26 */ "a",
    /* 27 */ "do {\n  a = a + 1\n  return a\n}",
    /* 28 */ "(x => (a = x))(4)",
    /* 29 */ "[1, 2] via (a => a * 2)",
    /* 30 */ "b = do {\n  a = 8\n  return a + 1\n}",
    /* 31 */ "t",
    /* 32 */ "(() => (a = 4))()",
    /* 33 */ "[() => (b = 6) + 1][0]()",
    /* 34 */ "(() => [t = a][0])()",
    /* 35 */ "b = () => do {\n  a = a + 1\n  return a\n}",
    /* 36 */ "((a) => b())(10)",
    /* 37 */ "do {\n  return a = 9\n}",
    /* 38 */ "do {\n  b = 1\n  return b = a\n}",
];

const CORE: &[usize] = &[0, 1, 2, 3, 4, 5, 6, 7, 8, 10, 11, 12, 13, 14, 15, 17, 18, 19, 27, 28, 29, 30, 32, 33, 34, 35, 36, 37, 38];

fn num(v: &V) -> Option<f64> {
    match v {
        V::Num(x) => Some(*x),
        _ => None,
    }
}

/// bind-once reference model: returns Ok(()) / Err(()) for the statement and updates env
fn model_step(t: usize, env: &mut Env) -> Result<(), ()> {
    let bound = |e: &Env, n: &str| e.contains_key(n);
    match t {
        0 | 10 => {
            if bound(env, "a") {
                return Err(());
            }
            env.insert("a", V::Num(1.0));
            Ok(())
        }
        1 => {
            if bound(env, "b") {
                return Err(());
            }
            env.insert("b", V::Num(2.0));
            Ok(())
        }
        2 => {
            if bound(env, "a") {
                return Err(());
            }
            env.insert("a", V::Num(3.0));
            Ok(())
        }
        3 => {
            if bound(env, "b") {
                return Err(());
            }
            let v = env.get("a").cloned().ok_or(())?;
            env.insert("b", v);
            Ok(())
        }
        4 => {
            if bound(env, "a") {
                return Err(());
            }
            let v = env.get("b").and_then(num).ok_or(())?;
            env.insert("a", V::Num(v + 1.0));
            Ok(())
        }
        5 => {
            if bound(env, "a") || bound(env, "b") {
                return Err(());
            }
            env.insert("b", V::Num(5.0));
            env.insert("a", V::Num(6.0));
            Ok(())
        }
        6 => {
            if bound(env, "a") {
                return Err(());
            }
            // the inner assignment binds a; the outer one must then be refused
            env.insert("a", V::Num(1.0));
            Err(())
        }
        7 => {
            if bound(env, "a") {
                return Err(());
            }
            env.insert("a", V::Num(1.0));
            if bound(env, "b") {
                return Err(());
            }
            env.insert("b", V::Num(2.0));
            Ok(())
        }
        8 => {
            if bound(env, "a") {
                return Err(());
            }
            env.insert("a", V::Num(1.0));
            Err(())
        }
        // 34: an anonymous zero-parameter closure over a that assigns a call-local name
        9 | 26 | 34 => env.get("a").map(|_| ()).ok_or(()),
        11 | 29 | 37 => Ok(()),
        // the return statement of a block is a block statement like the others: it may shadow
        38 => env.get("a").map(|_| ()).ok_or(()),
        12 => {
            if bound(env, "b") {
                Err(())
            } else {
                Ok(())
            }
        }
        13 => {
            if bound(env, "a") {
                return Err(());
            }
            env.insert("a", V::FnAdd5);
            Ok(())
        }
        14 => match env.get("a") {
            Some(V::FnAdd5) => Ok(()),
            _ => Err(()),
        },
        15 => {
            if bound(env, "b") {
                return Err(());
            }
            env.insert("b", V::FnSum2);
            Ok(())
        }
        16 => match env.get("b") {
            Some(V::FnSum2) => Ok(()),
            _ => Err(()),
        },
        17 => {
            if bound(env, "b") {
                return Err(());
            }
            let cap = env.get("a").cloned().map(Box::new);
            env.insert("b", V::FnReadA(cap));
            Ok(())
        }
        18 => match env.get("b").cloned() {
            Some(V::FnReadA(Some(_))) => Ok(()),
            Some(V::FnReadA(None)) => env.get("a").map(|_| ()).ok_or(()),
            // a + 1 needs a number: the captured one, or the top-level one when a was not bound at the definition
            Some(V::FnIncA(Some(v))) => num(&v).map(|_| ()).ok_or(()),
            Some(V::FnIncA(None)) => env.get("a").and_then(num).map(|_| ()).ok_or(()),
            _ => Err(()),
        },
        35 => {
            if bound(env, "b") {
                return Err(());
            }
            let cap = env.get("a").cloned().map(Box::new);
            env.insert("b", V::FnIncA(cap));
            Ok(())
        }
        // b called from inside a function whose parameter is called a: a captured a wins, a
        // late-bound one is found in the calling function
        36 => match env.get("b").cloned() {
            Some(V::FnReadA(_)) => Ok(()),
            Some(V::FnIncA(Some(v))) => num(&v).map(|_| ()).ok_or(()),
            Some(V::FnIncA(None)) => Ok(()),
            _ => Err(()),
        },
        19 | 20 | 21 | 22 | 23 | 24 | 25 | 31 => Err(()),
        27 => env.get("a").and_then(num).map(|_| ()).ok_or(()),
        // an assignment in a function body binds a name of that call: whether the top level
        // (the caller) has the name does not matter, and the top level never sees the binding
        28 | 32 | 33 => Ok(()),
        30 => {
            if bound(env, "b") {
                return Err(());
            }
            env.insert("b", V::Num(9.0));
            Ok(())
        }
        _ => unreachable!(),
    }
}

/// value the model expects a successful statement to produce (where it is simple)
fn model_value(t: usize, env_after: &Env, env_before: &Env) -> Option<f64> {
    match t {
        0 | 10 => Some(1.0),
        1 => Some(2.0),
        2 => Some(3.0),
        4 => env_after.get("a").and_then(num),
        5 => Some(6.0),
        9 | 26 | 34 => env_before.get("a").and_then(num),
        11 | 37 => Some(9.0),
        38 => env_before.get("a").and_then(num),
        12 => Some(7.0),
        14 => Some(6.0),
        16 => Some(30.0),
        18 => match env_before.get("b") {
            Some(V::FnReadA(Some(v))) => num(v),
            Some(V::FnReadA(None)) => env_before.get("a").and_then(num),
            Some(V::FnIncA(Some(v))) => num(v).map(|x| x + 1.0),
            Some(V::FnIncA(None)) => env_before.get("a").and_then(num).map(|x| x + 1.0),
            _ => None,
        },
        36 => match env_before.get("b") {
            Some(V::FnReadA(Some(v))) => num(v),
            Some(V::FnReadA(None)) => Some(10.0),
            Some(V::FnIncA(Some(v))) => num(v).map(|x| x + 1.0),
            Some(V::FnIncA(None)) => Some(11.0),
            _ => None,
        },
        27 => env_before.get("a").and_then(num).map(|x| x + 1.0),
        28 | 32 => Some(4.0),
        33 => Some(7.0),
        30 => Some(9.0),
        _ => None,
    }
}

fn snapshot(sess: &Sess) -> BTreeMap<String, MV> {
    sess.snapshot().into_iter().map(|(k, v)| (k, v.unwrap_or(MV::Str("<unserialisable>".into())))).collect()
}

fn matches_model(real: &BTreeMap<String, MV>, model: &Env) -> Result<(), String> {
    let names: Vec<&String> = real.keys().filter(|k| k.as_str() != "inputs").collect();
    let mnames: Vec<&&str> = model.keys().collect();
    if names.len() != mnames.len() || names.iter().zip(&mnames).any(|(a, b)| a.as_str() != **b) {
        return Err(format!("root environment binds {:?}, the bind-once model binds {:?}", names, mnames));
    }
    for (k, v) in model {
        let r = &real[*k];
        let ok = match v {
            V::Num(x) => matches!(r, MV::Num(f) if f.0 == *x),
            _ => matches!(r, MV::Fn(_)),
        };
        if !ok {
            return Err(format!("{} is {:?} in the root environment, the model has {:?}", k, r, v));
        }
    }
    Ok(())
}

pub struct History;

#[derive(Clone, Debug, Serialize, Deserialize)]
pub enum Case {
    Templates(Vec<u8>),
    Session { stmts: Vec<String>, top_level_names: Vec<String> },
    /// an attempt to bind a protected name (keyword, built-in, inputs, constants) in one of PROTECTED_FORMS
    Protected { name: String, form: u8 },
    /// lines typed into the interactive CLI on a pseudo-terminal; afterwards every name is
    /// printed and compared with the same lines evaluated in-process
    Repl(Vec<u8>),
    /// D4: an anonymous function value (kept in a container) whose body mentions the unbound
    /// name NAME; an inner scope binds NAME to that function value. What the function does
    /// when reached through the container, and how it displays, must be the same before and after
    Leak { holder: u8, binder: u8, name: u8 },
    /// D5: `x = CONTEXT[(x = V)]` - the right-hand side binds the very name being bound, from
    /// inside each kind of sub-expression
    SelfNested { context: u8 },
    /// D6: a recursive named function handed over by value to a scope that binds the function's
    /// own name to something else: the inner scope's binding must not reach into the function
    OwnName { variant: u8 },
}

pub const OWN_NAME: &[(&str, &str)] = &[
    ("((f, count) => f(2))(count, n => 100)", "2"),
    ("((f, count) => f(3))(count, 7)", "3"),
    ("do {\n  keep = count\n  count = n => 100\n  return keep(2)\n}", "2"),
    ("([count] via ((f, count) => f(2)))[0]", "2"),
    ("map([count], (f, count) => f(2))[0]", "2"),
    ("((count) => alias(2))(n => 100)", "2"),
    ("((count) => ([2] via alias))(5)", "[2]"),
    ("do {\n  count = 1\n  return alias(4)\n}", "4"),
    ("((even, odd) => even(4))(even, n => true)", "true"),
    ("((f, odd) => f(3))(even, n => true)", "false"),
    // a name bound inside a function's own do-block against the same name in the caller
    ("((tnest) => fdo(1))(9)", "4"),
    ("do {\n  tnest = 1\n  return fdo(tnest)\n}", "4"),
    ("([9] via (tnest => fdo(1)))[0]", "4"),
    ("((tnest) => frec(2))(9)", "6"),
    // a top-level name read only under a postfix operator inside a function
    ("do {\n  nfac = 4\n  return ffac()\n}", "6"),
    ("((nfac) => ffac())(5)", "6"),
    ("([5] via (nfac => ffac()))[0]", "6"),
    // a function re-entered while it is running, past a scope that binds a name it captured
    ("frr(1)", "10"),
    ("frr(3)", "10"),
    ("fvia(1)", "23"),
    ("((kcap) => frr(1))(5)", "10"),
    ("fgo(1)", "10"),
];

/// (right-hand side with the inner binding, source of the value the inner binding gives x)
pub const SELF_NESTED: &[(&str, &str)] = &[
    ("(x = 1) + 1", "1"),
    ("1 + (x = 1)", "1"),
    ("[x = 1]", "1"),
    ("[0, ...(x = [1])]", "[1]"),
    ("{a: (x = 1)}", "1"),
    ("{[(x = \"k\")]: 1}", "\"k\""),
    ("{...(x = {a: 1}), b: 2}", "{a: 1}"),
    ("{a: 0, ...(x = {a: 1})}", "{a: 1}"),
    ("max(1, (x = 2))", "2"),
    ("max(...(x = [1, 2]))", "[1, 2]"),
    ("[5, 6][(x = 0)]", "0"),
    ("(x = [5, 6])[0]", "[5, 6]"),
    ("(x = {a: 1}).a", "{a: 1}"),
    ("{a: 1}[(x = \"a\")]", "\"a\""),
    ("if (x = true) then 1 else 2", "true"),
    ("if true then (x = 1) else 2", "1"),
    ("if false then 1 else (x = 2)", "2"),
    ("-(x = 1)", "1"),
    ("!(x = true)", "true"),
    ("(x = 3)!", "3"),
    ("(x = null) ?? 1", "null"),
    ("null ?? (x = 1)", "1"),
    ("(x = [1]) via (q => q)", "[1]"),
    ("[1] via (x = (q => q))", "(q => q)"),
    ("1 into (x = (q => q))", "(q => q)"),
    ("(x = [1]) where (q => true)", "[1]"),
    ("(x = true) && true", "true"),
    ("true && (x = true)", "true"),
    ("false || (x = true)", "true"),
    ("(x = 1) == 1", "1"),
    ("1 .== (x = 1)", "1"),
    ("(x = (x = 1))", "1"),
    ("(y => y)(x = 1)", "1"),
    ("((x = (y => y)))(1)", "(y => y)"),
    ("format(\"{}\", (x = 1))", "1"),
    ("[[[(x = 1)]]]", "1"),
    ("{a: {b: [(x = 1)]}}", "1"),
    ("(x = 1) ^ 2 ^ 1", "1"),
    // heap values bound inside an operand of an operator / built-in that builds a new value from them
    ("(x = \"ab\") + \"c\"", "\"ab\""),
    ("(x = \"ab\") + \"c\" + \"d\"", "\"ab\""),
    ("\"z\" + (x = \"ab\")", "\"ab\""),
    ("(y => y)(x = \"ab\") + \"c\"", "\"ab\""),
    ("(x = [\"k\", \"l\"])[0] + \"!\"", "[\"k\", \"l\"]"),
    ("[(x = \"1\") + \"2\", nope]", "\"1\""),
    ("(x = [1, 2]) + 1", "[1, 2]"),
    ("(x = [1, 2]) + [3, 4]", "[1, 2]"),
    ("uppercase(x = \"ab\")", "\"ab\""),
    ("reverse(x = [3, 1, 2])", "[3, 1, 2]"),
    ("sort(x = [3, 1, 2])", "[3, 1, 2]"),
    ("concat((x = [1]), [2])", "[1]"),
    ("{...(x = {a: 1}), a: 2}", "{a: 1}"),
    ("[...(x = [1]), 2]", "[1]"),
    ("join((x = [\"a\", \"b\"]), \"-\") + \"!\"", "[\"a\", \"b\"]"),
];

/// (setup statements, expression that reaches the function)
pub const LEAK_HOLDERS: &[(&str, &str)] = &[
    ("fs = [n => if n <= 0 then 0 else NAME(n - 1) + 1]", "fs[0]"),
    ("fs = {f: n => if n <= 0 then 0 else NAME(n - 1) + 1}", "fs.f"),
    ("mk = () => (n => if n <= 0 then 0 else NAME(n - 1) + 1)\nfs = [mk(), 1]", "fs[0]"),
    ("fs = [[n => if n <= 0 then 0 else NAME(n - 1) + 1]] via (g => g)", "fs[0][0]"),
    ("w = 1\nfs = [1, n => if n <= 0 then 0 else NAME(n - w) + w]", "fs[1]"),
    // the name is bound at top level (later than the function) to something else
    ("fs = [n => if n <= 0 then 0 else NAME(n - 1) + 1]\nNAME = n => 100", "fs[0]"),
];
/// statements that bind NAME to the function in an inner scope only
pub const LEAK_BINDERS: &[&str] = &[
    "a = do {\n  NAME = ACCESS\n  return NAME(2)\n}",
    "a = (NAME => NAME(2))(ACCESS)",
    "a = do {\n  t = do {\n    NAME = ACCESS\n    return 1\n  }\n  return t\n}",
    "h = x => do {\n  NAME = ACCESS\n  return NAME(x)\n}\na = h(2)",
    "a = do {\n  NAME = ACCESS\n  return nope_zz\n}",
    "a = [1] via (i => do {\n  NAME = ACCESS\n  return NAME(i)\n})",
    "a = do {\n  other_q = ACCESS\n  NAME = other_q\n  return NAME(1)\n}",
];
pub const LEAK_NAMES: &[&str] = &["k", "self", "rec", "f2"];

/// one-line statements for interactive sessions: heap-valued bindings, nested bindings inside
/// lines that fail later, rebinding attempts, allocation-heavy lines
pub const REPL_LINES: &[&str] = &[
    "[b = \"hello\", nope]",
    "c = \"world\"",
    "a = [1, 2, 3]",
    "[a = {k: \"v\"}, 1 + \"x\"]",
    "b = \"text\" + \"!\"",
    "nope_undefined",
    "d = a",
    "1 + \"x\"",
    "e = [b, c]",
    "a = \"again\"",
    "range(50) via (i => to_string(i))",
    "c = {list: [1, [2, 3]], s: \"in a record\"}",
    "[d = x => x + 1, d(nope)]",
    "f = y => [y, \"closure\"]",
    "e = f(2)",
    "{k: (b = [\"x\", \"y\"]), z: 1 / \"0\"}",
    "g = (b = \"kept\") + 1",
    "h = [a = [1, 2], nope]",
    "i = {k: (c = {deep: \"rec\"}), z: nope}",
    "j = \"allocate \" + \"something\"",
];
const REPL_NAMES: &[&str] = &["a", "b", "c", "d", "e"];

/// (text with NAME as the placeholder, must the statement fail?). The last three bind inside a
/// function body or do-block: whatever the statement does, the top level must be unaffected.
pub const PROTECTED_FORMS: &[(&str, bool)] = &[
    ("NAME = 1", true),
    ("output NAME = 1", true),
    ("zq = (NAME = 1)", true),
    ("[NAME = 1]", true),
    ("NAME = x => x", true),
    ("zq = 1 + (NAME = 2) * 3", true),
    ("{k: NAME = 1}", true),
    ("zq = if true then (NAME = 1) else 2", true),
    ("[1] via (x => (NAME = x))", false),
    ("do {\n  NAME = 1\n  return 2\n}", false),
    ("(() => do {\n  NAME = 5\n  return NAME\n})()", false),
    // a binding that is accepted must be readable: these may fail, or give 7
    ("do {\n  NAME = 7\n  return NAME\n}", false),
    ("((NAME) => NAME)(7)", false),
    ("((a, NAME?) => NAME)(1, 7)", false),
    ("[7] via (NAME => NAME)", false),
];

/// what a user can observe of a protected name at top level
fn observe_protected(sess: &Sess, name: &str) -> Vec<String> {
    let mut out = Vec::new();
    for probe in [name.to_string(), format!("typeof({})", name), format!("to_string({})", name), format!("{}.pi", name), format!("{}.n", name)] {
        out.push(match sess.obs(&probe) {
            Ok(v) => format!("{} -> {:?}", probe, v),
            Err(_) => format!("{} -> error", probe),
        });
    }
    out
}

const RESERVED_NAMES: &[&str] = &["if", "then", "else", "true", "false", "null", "and", "or", "not", "do", "return", "output", "constants"];

fn monitor_violation(log: &[verif_hooks::InsertEvent]) -> Option<String> {
    log.iter().find(|(root, key, already)| *root && *already && key != "inputs").map(|(_, k, _)| k.clone())
}

impl Check for History {
    type Case = Case;
    fn name(&self) -> &'static str {
        "history"
    }
    fn journal(&self) -> bool {
        true
    }
    fn run(&self, c: &Case, ctx: &mut Ctx) -> Outcome {
        match c {
            Case::Templates(seq) => {
                let sess = Sess::new();
                sess.set_inputs(&[]);
                let mut env: Env = Env::new();
                let mut nontrivial = false;
                for (pos, &ti) in seq.iter().enumerate() {
                    let ti = ti as usize % TEMPLATES.len();
                    let src = TEMPLATES[ti];
                    let before = env.clone();
                    let want = model_step(ti, &mut env);
                    if want.is_err() || matches!(ti, 11 | 12 | 27 | 28 | 29 | 30 | 32 | 33 | 34 | 35 | 36 | 37 | 38) {
                        nontrivial = true;
                    }
                    verif_hooks::arm();
                    let got = sess.probe(src);
                    let log = verif_hooks::take();
                    let here = || format!("statement {} of [{}]", pos + 1, seq.iter().map(|t| TEMPLATES[*t as usize % TEMPLATES.len()].replace('\n', " ")).collect::<Vec<_>>().join(" ; "));
                    if let Some(k) = monitor_violation(&log) {
                        fail!(format!("monitor:root-overwrite:{}", src.replace('\n', " ")), "{}: the root environment was overwritten for key {} (insert log {:?})", here(), k, log);
                    }
                    if got.is_ok() != want.is_ok() {
                        fail!(
                            format!("model:status:{}:{}", src.replace('\n', " "), if want.is_ok() { "should-succeed" } else { "should-fail" }),
                            "{}: `{}` gave {:?}, the bind-once model expects {}",
                            here(),
                            src,
                            got,
                            if want.is_ok() { "success" } else { "failure" }
                        );
                    }
                    if let (Ok(v), Some(w)) = (&got, model_value(ti, &env, &before)) {
                        if !matches!(v, MV::Num(f) if f.0 == w) {
                            fail!(format!("model:value:{}", src.replace('\n', " ")), "{}: `{}` evaluated to {:?}, expected {}", here(), src, v, w);
                        }
                    }
                    let real = snapshot(&sess);
                    if let Err(e) = matches_model(&real, &env) {
                        fail!(format!("model:environment:{}", src.replace('\n', " ")), "{}: after `{}`: {}", here(), src, e);
                    }
                    if let Some(bad) = real.keys().find(|k| RESERVED_NAMES.contains(&k.as_str()) || blots_core::functions::is_built_in_function(k)) {
                        fail!("reserved-name-bound", "{}: reserved name {} is bound in the root environment", here(), bad);
                    }
                }
                if nontrivial {
                    ctx.nontrivial(hash_str(&format!("{:?}", seq)));
                }
                Ok(())
            }
            Case::Protected { name, form } => {
                let (tmpl, must_fail) = PROTECTED_FORMS[*form as usize % PROTECTED_FORMS.len()];
                let src = tmpl.replace("NAME", name);
                ctx.label(if must_fail { "protected:top-level-form" } else { "protected:inner-scope-form" });
                ctx.nontrivial(hash_str(&src));
                let sess = Sess::new();
                sess.set_inputs(&[("n".into(), crate::model::mv::num(4.0))]);
                let before = observe_protected(&sess, name);
                let names_before: Vec<String> = snapshot(&sess).keys().cloned().collect();
                verif_hooks::arm();
                let got = sess.obs(&src);
                let log = verif_hooks::take();
                if let Some(k) = monitor_violation(&log) {
                    fail!(format!("protected:monitor:root-overwrite:{}", tmpl.replace('\n', " ")), "`{}`: the root environment was overwritten for key {}", src, k);
                }
                if tmpl.contains("7") {
                    // read-back forms: failure, or the value that was bound
                    let ok = match &got {
                        Err(_) => true,
                        Ok(MV::Num(f)) => f.0 == 7.0,
                        Ok(MV::List(v)) => matches!(v.as_slice(), [MV::Num(f)] if f.0 == 7.0),
                        _ => false,
                    };
                    if !ok {
                        fail!(format!("protected:unreadable-binding:{}", tmpl.replace('\n', " ")), "`{}` binds {} to 7 without complaint but reads back {:?}", src, name, got);
                    }
                }
                if must_fail && got.is_ok() {
                    fail!(format!("protected:bound:{}", tmpl.replace('\n', " ")), "`{}` succeeded ({:?}) although {} is a keyword, a built-in function name, inputs or constants", src, got, name);
                }
                // the same binding arriving as the parameter of a function *input* (JSON function
                // object): it must be refused, fail, or give the argument back - like in source
                if *form == 0 {
                    for (fsrc, call, ok_value) in [("(NAME) => [NAME]", "inputs.pf(7)", "[7]"), ("(a, NAME?) => [NAME]", "inputs.pf(1, 7)", "[7]"), ("(...NAME) => NAME", "inputs.pf(7)", "[7]"), ("x => do {\n  NAME = x\n  return [NAME]\n}", "inputs.pf(7)", "[7]")] {
                        let s2 = Sess::new();
                        let doc = serde_json::json!({"__blots_function": fsrc.replace("NAME", name)});
                        let loaded = crate::blots::from_json(&doc).to_value(&mut s2.heap.borrow_mut());
                        let mut map = indexmap::IndexMap::new();
                        if let Ok(v) = loaded {
                            map.insert("pf".to_string(), v);
                        }
                        let rec = s2.heap.borrow_mut().insert_record(map);
                        s2.bind_value("inputs", rec);
                        let got = s2.obs(call);
                        let want = Sess::new().obs(ok_value);
                        let fine = match (&got, &want) {
                            (Err(_), _) => true,
                            (Ok(a), Ok(b)) => a.same_nanclass(b),
                            _ => false,
                        };
                        if !fine {
                            fail!(format!("protected:unreadable-binding:function-input:{}", fsrc.replace('\n', " ")), "a function input with the source `{}` is accepted and `{}` gives {:?}: the binding of {} cannot be read back", fsrc.replace("NAME", name), call, got, name);
                        }
                    }
                }
                let after = observe_protected(&sess, name);
                if after != before {
                    fail!(format!("protected:changed:{}", tmpl.replace('\n', " ")), "after `{}` the name {} is observed differently at top level:\nbefore: {:?}\nafter:  {:?}", src, name, before, after);
                }
                let names_after: Vec<String> = snapshot(&sess).keys().cloned().collect();
                if let Some(k) = names_after.iter().find(|k| !names_before.contains(k) && (k.as_str() != "zq" || got.is_err())) {
                    fail!(format!("protected:root-gained:{}", tmpl.replace('\n', " ")), "after `{}` ({:?}) the root environment gained the name {}", src, got.as_ref().map(|_| "ok"), k);
                }
                Ok(())
            }
            Case::Leak { holder, binder, name } => {
                let (setup, access) = LEAK_HOLDERS[*holder as usize % LEAK_HOLDERS.len()];
                let name = LEAK_NAMES[*name as usize % LEAK_NAMES.len()];
                let setup = setup.replace("NAME", name);
                let bind = LEAK_BINDERS[*binder as usize % LEAK_BINDERS.len()].replace("NAME", name).replace("ACCESS", access);
                ctx.label("inner-binding-of-function-value");
                ctx.nontrivial(hash_str(&format!("leak|{}|{}", setup, bind)));
                let sess = Sess::new();
                sess.set_inputs(&[]);
                for l in setup.split('\n') {
                    if let Err(e) = sess.obs(l) {
                        fail!("leak:setup-rejected", "`{}` fails: {:?}", l, e);
                    }
                }
                let probes = [format!("{}(2)", access), format!("{}(0)", access), format!("to_string({})", access), format!("[5] via {}", access), format!("{} == {}", access, access)];
                let observe = |sess: &Sess| -> Vec<Result<MV, ()>> { probes.iter().map(|p| sess.obs(p).map_err(|_| ())).collect() };
                let names_before: Vec<String> = snapshot(&sess).keys().cloned().collect();
                let before = observe(&sess);
                let again = observe(&sess);
                if before != again {
                    fail!("leak:unstable-before-binding", "after\n{}\nthe probes {:?} give {:?} and then {:?}", setup, probes, before, again);
                }
                let _ = sess.obs(&bind);
                let after = observe(&sess);
                for ((p, b), a) in probes.iter().zip(&before).zip(&after) {
                    if a != b {
                        fail!(
                            format!("leak:function-value-changed:{}", if b.is_err() { "fails-before" } else { "succeeds-before" }),
                            "after\n{}\n`{}` gives {:?}; after also evaluating\n{}\n(which binds {} in an inner scope only) the same expression gives {:?}",
                            setup, p, b, bind, name, a
                        );
                    }
                }
                if let Some(k) = snapshot(&sess).keys().find(|k| !names_before.contains(k) && !matches!(k.as_str(), "a" | "h")) {
                    fail!("leak:name-visible-at-top-level", "after\n{}\n{}\nthe name {} is bound at top level", setup, bind, k);
                }
                Ok(())
            }
            Case::SelfNested { context } => {
                let (rhs, inner) = SELF_NESTED[*context as usize % SELF_NESTED.len()];
                ctx.label("self-nested-binding");
                ctx.nontrivial(hash_str(rhs));
                let reference = Sess::new();
                reference.set_inputs(&[]);
                let want = reference.obs(inner);
                for (head, name) in [("x = ", "x"), ("output x = ", "x")] {
                    let sess = Sess::new();
                    sess.set_inputs(&[]);
                    let src = format!("{}{}", head, rhs);
                    verif_hooks::arm();
                    let got = sess.obs(&src);
                    let log = verif_hooks::take();
                    if let Some(k) = monitor_violation(&log) {
                        fail!(format!("self-nested:root-overwrite:{}", rhs), "`{}`: the root environment was overwritten for key {} (insert log {:?})", src, k, log);
                    }
                    if got.is_ok() {
                        fail!(format!("self-nested:accepted:{}", rhs), "`{}` succeeded ({:?}) although its right-hand side had already bound {}", src, got, name);
                    }
                    let now = sess.obs(name);
                    let same = match (&now, &want) {
                        (Ok(MV::Fn(_)), Ok(MV::Fn(_))) => true,
                        (Ok(a), Ok(b)) => a.same_nanclass(b),
                        _ => false,
                    };
                    if !same {
                        fail!(format!("self-nested:value:{}", rhs), "after the refused `{}`, {} reads as {:?}; the inner binding gave it `{}` = {:?}", src, name, now, inner, want);
                    }
                }
                Ok(())
            }
            Case::OwnName { variant } => {
                let (src, want_src) = OWN_NAME[*variant as usize % OWN_NAME.len()];
                ctx.label("function-by-value-under-its-own-name");
                ctx.nontrivial(hash_str(src));
                let sess = Sess::new();
                sess.set_inputs(&[]);
                for l in ["kcap = 10", "frr = (n) => if n == 0 then kcap else do {\n  kcap = 99\n  return frr(n - 1)\n}", "fvia = (n) => if n == 0 then kcap else sum([1, 2] via (kcap => fvia(n - 1) + kcap))", "ggo = (kcap) => fgo(kcap)", "fgo = (n) => if n == 0 then kcap else ggo(n - 1)", "nfac = 3", "ffac = () => nfac!", "fdo = x => do {\n  y = (tnest = x * 2) + tnest\n  return y\n}", "frec = n => do {\n  y = if n == 0 then 0 else (tnest = n * 2) + frec(n - 1)\n  return y\n}", "count = n => if n <= 0 then 0 else 1 + count(n - 1)", "alias = count", "even = n => if n == 0 then true else odd(n - 1)", "odd = n => if n == 0 then false else even(n - 1)"] {
                    if let Err(e) = sess.obs(l) {
                        fail!("own-name:setup", "`{}` fails: {:?}", l, e);
                    }
                }
                // `odd` is late-bound inside `even` (mutual recursion): a caller that binds `odd` is seen by design
                let want = if src.contains("odd) => even(4)") || src.contains("(f, odd)") { None } else { Some(Sess::new().obs(want_src)) };
                let names_before: Vec<String> = snapshot(&sess).keys().cloned().collect();
                let got = sess.obs(src);
                if let Some(want) = want {
                    let same = matches!((&got, &want), (Ok(a), Ok(b)) if a.same_nanclass(b));
                    if !same {
                        fail!(format!("own-name:inner-binding-reaches-function:{}", if got.is_ok() { "wrong-value" } else { "fails" }), "with count = n => if n <= 0 then 0 else 1 + count(n - 1) and alias = count,\n`{}` gives {:?}, expected {:?}", src, got, want);
                    }
                }
                let names_after: Vec<String> = snapshot(&sess).keys().cloned().collect();
                if names_after != names_before {
                    fail!("own-name:root-names-changed", "after `{}` the top-level names are {:?} (before: {:?})", src, names_after, names_before);
                }
                Ok(())
            }
            Case::Repl(seq) => {
                ctx.label("interactive-repl");
                ctx.nontrivial(hash_str(&format!("repl{:?}", seq)));
                let lines: Vec<String> = seq.iter().map(|i| REPL_LINES[*i as usize % REPL_LINES.len()].to_string()).collect();
                // reference: the same lines, one by one, in-process
                let sess = Sess::new();
                sess.set_inputs(&[]);
                for l in &lines {
                    let _ = sess.obs(l);
                }
                let want: Vec<Option<String>> = REPL_NAMES
                    .iter()
                    .map(|n| match sess.obs(&format!("format(\"{{}}\", {})", n)) {
                        Ok(MV::Str(t)) => Some(t),
                        _ => None,
                    })
                    .collect();
                let mut typed = lines.clone();
                for n in REPL_NAMES {
                    typed.push(format!("print(\"<<{{}}:{{}}>>\", \"{}\", {})", n, n));
                }
                let lim = crate::engine::proc::Limits { mem_bytes: 4 << 30, stack_bytes: 8 << 20, timeout: std::time::Duration::from_secs(60) };
                let r = match crate::engine::proc::run_pty(&ctx.cli_path, &typed, &lim) {
                    Ok(r) => r,
                    Err(e) => fail!("repl:spawn-pty", "{}", e),
                };
                if r.timed_out {
                    ctx.label("resource-inconclusive");
                    return Ok(());
                }
                let tail: String = r.stdout.chars().rev().take(500).collect::<String>().chars().rev().collect();
                if r.signal.is_some() || r.code != Some(0) {
                    fail!(format!("repl:crash:{}", r.describe()), "the interactive CLI ended with {} during the session\n{}\n--- end of its output: {:?}", r.describe(), lines.join("\n"), tail);
                }
                for (n, w) in REPL_NAMES.iter().zip(&want) {
                    let marker = format!("<<{}:", n);
                    let got = r.stdout.rfind(&marker).and_then(|i| r.stdout[i + marker.len()..].find(">>").map(|j| r.stdout[i + marker.len()..i + marker.len() + j].to_string()));
                    if got != *w {
                        fail!(
                            format!("repl:binding-differs:{}", if w.is_some() { "bound" } else { "unbound" }),
                            "after the session\n{}\nthe interactive CLI shows {} = {:?}; evaluated in-process the same lines give {:?}\n--- end of its output: {:?}",
                            lines.join("\n"), n, got, w, tail
                        );
                    }
                }
                Ok(())
            }
            Case::Session { stmts, top_level_names } => {
                let sess = Sess::new();
                sess.set_inputs(&[("n".into(), crate::model::mv::num(4.0))]);
                let mut prev = snapshot(&sess);
                let mut rebinding = false;
                ctx.label("session");
                for (pos, src) in stmts.iter().enumerate() {
                    verif_hooks::arm();
                    let got = sess.obs(src);
                    let log = verif_hooks::take();
                    if let Some(k) = monitor_violation(&log) {
                        fail!("session:monitor:root-overwrite", "statement {} `{}`: the root environment was overwritten for key {}\n--- session:\n{}", pos + 1, src, k, stmts.join("\n"));
                    }
                    let now = snapshot(&sess);
                    for (k, v) in &prev {
                        match now.get(k) {
                            Some(v2) if v2.same_nanclass(v) || matches!((v, v2), (MV::Fn(_), MV::Fn(_))) => {}
                            other => fail!(
                                format!("session:binding-changed:{}", if got.is_ok() { "ok-statement" } else { "failed-statement" }),
                                "statement {} `{}` changed {} from {:?} to {:?}\n--- session:\n{}",
                                pos + 1,
                                src,
                                k,
                                v,
                                other,
                                stmts.join("\n")
                            ),
                        }
                    }
                    if let Some(bad) = now.keys().find(|k| RESERVED_NAMES.contains(&k.as_str()) || blots_core::functions::is_built_in_function(k)) {
                        fail!("session:reserved-name-bound", "reserved name {} is bound after `{}`", bad, src);
                    }
                    if let Some(leak) = now.keys().find(|k| k.as_str() != "inputs" && !top_level_names.contains(k)) {
                        fail!("session:leaked-name", "name {} is visible at top level after `{}` although it is only bound inside a do-block, a function body or as a parameter\n--- session:\n{}", leak, src, stmts.join("\n"));
                    }
                    if got.is_err() {
                        rebinding = true;
                    }
                    prev = now;
                }
                if rebinding {
                    ctx.nontrivial(hash_str(&stmts.join("\n")));
                }
                Ok(())
            }
        }
    }
}

fn top_level_assigned(e: &E, out: &mut Vec<String>) {
    match e {
        E::Assign(n, v) => {
            out.push(n.clone());
            top_level_assigned(v, out);
        }
        E::Lambda(..) | E::Do(..) => {}
        E::Output(inner) => top_level_assigned(inner, out),
        other => {
            for c in other.children() {
                top_level_assigned(c, out);
            }
        }
    }
}

fn session_case(tape: &[u16]) -> Case {
    let mut t = Tape::new(tape);
    let mut stmts: Vec<String> = typed::PRELUDE.lines().map(|s| s.to_string()).collect();
    let mut names: Vec<String> = stmts.iter().filter_map(|s| s.split(" = ").next().map(|n| n.to_string())).collect();
    let (prog, _) = typed::program(&mut t, 12, 4, true);
    for st in &prog {
        // sometimes wrap the right-hand side so that it contains a nested top-level assignment
        let st2 = match (st, t.pick(6)) {
            (E::Assign(n, v), 0) => {
                let w = format!("w{}", stmts.len());
                E::Assign(n.clone(), Box::new(E::List(vec![E::Assign(w, Box::new(crate::gen_::expr::n(1.0))), (**v).clone()])))
            }
            _ => st.clone(),
        };
        top_level_assigned(&st2, &mut names);
        stmts.push(print_min(&st2));
        // interleave rebinding attempts and failing statements
        match t.pick(7) {
            0 if !names.is_empty() => {
                let n = names[t.pick(names.len())].clone();
                stmts.push(format!("{} = 12345", n));
            }
            1 if !names.is_empty() => {
                let n = names[t.pick(names.len())].clone();
                stmts.push(format!("{} = ({} = 1) + 1", n, n));
            }
            2 => stmts.push("zz_undefined + 1".into()),
            3 if !names.is_empty() => {
                let n = names[t.pick(names.len())].clone();
                stmts.push(format!("do {{\n  {} = \"shadow\"\n  return {}\n}}", n, n));
            }
            4 if !names.is_empty() => {
                let n = names[t.pick(names.len())].clone();
                stmts.push(format!("(({}) => {})(\"param\")", n, n));
            }
            5 => stmts.push(
                [
                    "sum = 1",
                    "inputs = 2",
                    "constants = 3",
                    "output nope_zz",
                    "[fresh_q = 1, nope_zz]",
                    "(() => (leak_a = 1) + 1)()",
                    "{go: () => (leak_b = 2) * 10}.go()",
                    "do {\n  return leak_c = 5\n}",
                    "do {\n  // only a comment\n  return (leak_d = 5) + 1\n}",
                    "[1] via (leak_e => leak_e)",
                    "map([1], q => (leak_f = q))",
                    "q1 = (keep_s = \"kept\") + 1",
                    "q2 = [keep_l = [1, 2], nope_zz]",
                    "q3 = {k: (keep_r = {deep: \"rec\"}), z: nope_zz}",
                    "q4 = \"allocate \" + \"something\"",
                    "q5 = [\"more\", [\"allocations\"]]",
                ][t.pick(16)]
                .into(),
            ),
            _ => {}
        }
    }
    names.push("fresh_q".into());
    for n in ["keep_s", "keep_l", "keep_r", "q1", "q2", "q3", "q4", "q5"] {
        names.push(n.into());
    }
    Case::Session { stmts, top_level_names: names }
}

pub fn run(ctx: &mut Ctx) {
    let thorough = ctx.tier == crate::engine::Tier::Thorough;
    // D0: every protected name x every binding form
    let mut protected: Vec<String> = ["if", "then", "else", "true", "false", "null", "and", "or", "not", "do", "return", "output", "inputs", "constants", "inf", "infinity"].iter().map(|s| s.to_string()).collect();
    let mut builtins: Vec<String> = blots_core::functions::get_built_in_function_idents().iter().map(|s| s.to_string()).collect();
    builtins.sort();
    protected.extend(builtins);
    let cases: Vec<Case> = protected.iter().flat_map(|n| (0..PROTECTED_FORMS.len()).map(move |f| Case::Protected { name: n.clone(), form: f as u8 })).collect();
    ctx.run_enum(&History, cases.into_iter(), false);
    // D1: all sequences up to length 4 over the full alphabet
    let n = TEMPLATES.len() as u64;
    let max_len = 4u32;
    let total: u64 = (1..=max_len).map(|l| n.pow(l)).sum();
    let seqs = (0..total).map(move |mut idx| {
        let mut len = 1u32;
        while idx >= n.pow(len) {
            idx -= n.pow(len);
            len += 1;
        }
        let mut v = Vec::with_capacity(len as usize);
        for _ in 0..len {
            v.push((idx % n) as u8);
            idx /= n;
        }
        Case::Templates(v)
    });
    ctx.run_enum(&History, seqs, true);
    if thorough {
        let m = CORE.len() as u64;
        let seqs5 = (0..m.pow(5)).map(move |mut idx| {
            let mut v = Vec::with_capacity(5);
            for _ in 0..5 {
                v.push(CORE[(idx % m) as usize] as u8);
                idx /= m;
            }
            Case::Templates(v)
        });
        ctx.run_enum(&History, seqs5, true);
    }
    // random longer template histories
    ctx.run_random(&History, prop::collection::vec(0u8..TEMPLATES.len() as u8, 5..14).prop_map(Case::Templates), ctx.tier.pick(20_000, 400_000));
    // D4: inner scopes that bind a name to an anonymous function value which mentions that name
    let leaks: Vec<Case> = (0..LEAK_HOLDERS.len() as u8)
        .flat_map(|h| (0..LEAK_BINDERS.len() as u8).flat_map(move |b| (0..LEAK_NAMES.len() as u8).map(move |n| Case::Leak { holder: h, binder: b, name: n })))
        .collect();
    ctx.run_enum(&History, leaks.into_iter(), false);
    // D5: the right-hand side binds the name being bound, from inside every kind of sub-expression
    ctx.run_enum(&History, (0..SELF_NESTED.len() as u8).map(|c| Case::SelfNested { context: c }), false);
    // D6: a recursive function used by value where its own name is bound to something else
    ctx.run_enum(&History, (0..OWN_NAME.len() as u8).map(|v| Case::OwnName { variant: v }), false);
    // D3: interactive sessions on a pseudo-terminal vs the same lines in-process
    let mut repl = vec![Case::Repl(vec![0, 1, 8]), Case::Repl(vec![3, 11, 6]), Case::Repl(vec![15, 2, 10, 8]), Case::Repl(vec![12, 13, 14, 5, 9])];
    repl.truncate(if thorough { 4 } else { 4 });
    ctx.run_enum(&History, repl.into_iter(), false);
    ctx.run_random(&History, prop::collection::vec(0u8..REPL_LINES.len() as u8, 2..8).prop_map(Case::Repl), ctx.tier.pick(28, 600));
    // D2: random sessions
    ctx.run_random(&History, prop::collection::vec(any::<u16>(), 0..400).prop_map(|t| session_case(&t)), ctx.tier.pick(8_000, 150_000));
}
