//! C02 — evaluation is deterministic and free of side effects on values.

use crate::blots::{Obs, Sess};
use crate::engine::proc::{Limits, run as run_proc};
use crate::engine::{Check, Ctx, Outcome, hash_str};
use crate::fail;
use crate::gen_::expr::{E, RE, Tape, print_min};
use crate::gen_::typed;
use crate::model::MV;
use crate::model::mv::num;
use proptest::prelude::*;
use serde::{Deserialize, Serialize};

pub const RULE: &str = "generated well-scoped programs (typed generator over a prelude of numbers, strings, lists, records and closures; arithmetic, broadcasting, higher-order built-ins, do-blocks, closures, unit conversions with case-sensitive identifiers, NaN-producing terms, duplicated sub-expressions; no time_now / print) with an input record: (a) evaluated twice in-process with fresh heap and environment (fresh HashMap seeds) - identical per-statement observations (value incl. emitted function text, or error message) and final bindings; (b) after an unrelated program (the same program with its string literals case-swapped, plus fixed programs) in the same thread, and in the same heap with a fresh environment (all heap indices shifted), compared with (c) a fresh OS process (`bv eval`, 12% of cases) and the real CLI outputs (4%; the inputs reach the CLI by --input, by an immediate pipe, or from a slow producer that writes late and in two pieces); (d) `[e, e]` has equal elements and equals `[t, t]` after `t = e`; (e) let-abstraction: an always-evaluated, assignment-free, non-atomic sub-expression e' (all its structurally equal occurrences) is bound to a fresh name first - same value or both fail. Non-trivial = the program succeeds and produces a heap value (list, record, string or function); for (e) e' is non-atomic; distinct by program text.";
pub const ASSUMPTIONS: &[&str] = &[
    "std offers no way to force a hash seed: seeds are sampled through fresh RandomState instances (every new HashMap) and fresh processes",
    "error messages are compared exactly between repeated runs of the same program (a, b, c) but only by status for the metamorphic relations (d, e), where binding a lambda to a name legitimately changes its display name",
];

#[derive(Clone, Debug, Serialize, Deserialize)]
pub struct Case {
    /// statements after the prelude
    pub prog: Vec<E>,
    pub n_input: MV,
    pub pick: u16,
    pub process: bool,
    pub cli: bool,
}

pub struct Deterministic;

fn program_lines(c: &Case) -> Vec<String> {
    let mut v: Vec<String> = typed::PRELUDE.lines().map(|s| s.to_string()).collect();
    v.extend(c.prog.iter().map(print_min));
    v
}

pub fn observe(lines: &[String], n_input: &MV, sess: &Sess) -> (Vec<Obs>, Vec<(String, Obs)>) {
    sess.set_inputs(&[("n".into(), n_input.clone())]);
    let mut obs = Vec::new();
    for l in lines {
        obs.push(sess.obs(l));
    }
    let snap = sess.snapshot().into_iter().filter(|(k, _)| k != "inputs").collect();
    (obs, snap)
}

fn digest(obs: &[Obs], snap: &[(String, Obs)]) -> String {
    serde_json::to_string(&(obs, snap)).unwrap()
}

/// `bv eval`: read {"lines": [...], "n": MV} from stdin, print the digest
pub fn eval_main() {
    let mut s = String::new();
    use std::io::Read;
    std::io::stdin().read_to_string(&mut s).unwrap();
    let v: serde_json::Value = serde_json::from_str(&s).expect("json");
    let lines: Vec<String> = serde_json::from_value(v["lines"].clone()).expect("lines");
    let n: MV = serde_json::from_value(v["n"].clone()).expect("n");
    let sess = Sess::new();
    let (obs, snap) = observe(&lines, &n, &sess);
    println!("{}", digest(&obs, &snap));
}

fn swap_case_strings(e: &E) -> E {
    fn sw(s: &str) -> String {
        s.chars().map(|c| if c.is_uppercase() { c.to_lowercase().collect::<String>() } else { c.to_uppercase().collect::<String>() }).collect()
    }
    let r = |x: &E| Box::new(swap_case_strings(x));
    match e {
        E::Str(s) => E::Str(sw(s)),
        E::List(v) => E::List(v.iter().map(swap_case_strings).collect()),
        E::Rec(v) => E::Rec(
            v.iter()
                .map(|x| match x {
                    RE::Pair(k, v) => RE::Pair(k.clone(), swap_case_strings(v)),
                    RE::Dyn(k, v) => RE::Dyn(swap_case_strings(k), swap_case_strings(v)),
                    RE::Short(k) => RE::Short(k.clone()),
                    RE::Spread(v) => RE::Spread(swap_case_strings(v)),
                })
                .collect(),
        ),
        E::Lambda(p, b) => E::Lambda(p.clone(), r(b)),
        E::If(a, b, c) => E::If(r(a), r(b), r(c)),
        E::Do(s, x) => E::Do(s.iter().map(swap_case_strings).collect(), r(x)),
        E::Assign(n, v) => E::Assign(n.clone(), r(v)),
        E::Call(f, a) => E::Call(r(f), a.iter().map(swap_case_strings).collect()),
        E::Index(a, b) => E::Index(r(a), r(b)),
        E::Field(a, f) => E::Field(r(a), f.clone()),
        E::Bin(op, a, b) => E::Bin(*op, r(a), r(b)),
        E::Neg(a) => E::Neg(r(a)),
        E::Not(a, w) => E::Not(r(a), *w),
        E::Fact(a) => E::Fact(r(a)),
        E::Spread(a) => E::Spread(r(a)),
        E::Output(a) => E::Output(r(a)),
        other => other.clone(),
    }
}

fn has_assign(e: &E) -> bool {
    matches!(e, E::Assign(..)) || e.children().iter().any(|c| has_assign(c))
}

/// sub-expressions in always-evaluated positions (not under lambda / do-block / conditional branch)
fn always_evaluated<'a>(e: &'a E, out: &mut Vec<&'a E>) {
    match e {
        E::Lambda(..) | E::Do(..) => {}
        E::If(c, _, _) => {
            out.push(c);
            always_evaluated(c, out);
        }
        E::Spread(inner) => always_evaluated(inner, out),
        other => {
            for ch in other.children() {
                if !matches!(ch, E::Spread(_)) {
                    out.push(ch);
                }
                always_evaluated(ch, out);
            }
        }
    }
}

fn replace_all(e: &E, target: &E, with: &E) -> E {
    if e == target {
        return with.clone();
    }
    let r = |x: &E| Box::new(replace_all(x, target, with));
    match e {
        E::Lambda(..) | E::Do(..) => e.clone(),
        E::If(c, a, b) => E::If(r(c), a.clone(), b.clone()),
        E::List(v) => E::List(v.iter().map(|x| replace_all(x, target, with)).collect()),
        E::Rec(v) => E::Rec(
            v.iter()
                .map(|x| match x {
                    RE::Pair(k, v) => RE::Pair(k.clone(), replace_all(v, target, with)),
                    RE::Dyn(k, v) => RE::Dyn(replace_all(k, target, with), replace_all(v, target, with)),
                    RE::Short(k) => RE::Short(k.clone()),
                    RE::Spread(v) => RE::Spread(replace_all(v, target, with)),
                })
                .collect(),
        ),
        E::Assign(n, v) => E::Assign(n.clone(), r(v)),
        E::Call(f, a) => E::Call(r(f), a.iter().map(|x| replace_all(x, target, with)).collect()),
        E::Index(a, b) => E::Index(r(a), r(b)),
        E::Field(a, f) => E::Field(r(a), f.clone()),
        E::Bin(op, a, b) => E::Bin(*op, r(a), r(b)),
        E::Neg(a) => E::Neg(r(a)),
        E::Not(a, w) => E::Not(r(a), *w),
        E::Fact(a) => E::Fact(r(a)),
        E::Spread(a) => E::Spread(r(a)),
        other => other.clone(),
    }
}

fn same_value(a: &Obs, b: &Obs) -> bool {
    match (a, b) {
        (Ok(MV::Fn(_)), Ok(MV::Fn(_))) => true,
        (Ok(x), Ok(y)) => x.same_nanclass(y),
        (Err(_), Err(_)) => true,
        _ => false,
    }
}

const UNRELATED: &[&str] = &[
    "u1 = convert(1, \"MW\", \"watts\") + convert(1, \"mw\", \"watts\") + convert(2, \"KM\", \"M\") + convert(1, \"MB\", \"bytes\")",
    "u2 = range(200) via (x => x * 2) where (x => x % 3 == 0)",
    "u3 = sort_by([3, 1, 2], x => -x)",
    "u4 = nope_undefined + 1",
    "u5 = {a: [1, 2, {b: \"deep\"}], f: x => x}",
    "u6 = random(7)",
    // aggregates that fail after some numeric operands (state kept across calls would leak them)
    "u7 = sum([1, 2, \"x\"])",
    "u8 = max(5, null)",
    "u9 = [avg([1, \"a\"]), 1]",
    "u10 = median([3, 4, [1]]) + prod(2, 3, \"y\") + min(7, {})",
    "u11 = sort([3, 1, \"z\", 2]) + unique([1, 1, nope_undefined])",
];

impl Check for Deterministic {
    type Case = Case;
    fn name(&self) -> &'static str {
        "deterministic"
    }
    fn journal(&self) -> bool {
        true
    }
    fn run(&self, c: &Case, ctx: &mut Ctx) -> Outcome {
        let lines = program_lines(c);
        let text = lines.join("\n");
        // (b) unrelated evaluations first, in this thread: the case-swapped sibling program and fixed programs
        let pollute = Sess::new();
        pollute.set_inputs(&[]);
        for l in UNRELATED {
            let _ = pollute.obs(l);
        }
        let sibling: Vec<String> = typed::PRELUDE.lines().map(|s| s.to_string()).chain(c.prog.iter().map(|e| print_min(&swap_case_strings(e)))).collect();
        let sib = Sess::new();
        let _ = observe(&sibling, &c.n_input, &sib);
        // (a) two evaluations with fresh heap and environment
        let s1 = Sess::new();
        let (o1, snap1) = observe(&lines, &c.n_input, &s1);
        let s2 = Sess::new();
        let (o2, snap2) = observe(&lines, &c.n_input, &s2);
        let ok_all = o1.iter().all(|o| o.is_ok());
        let heapy = o1.iter().skip(typed::PRELUDE.lines().count()).any(|o| matches!(o, Ok(MV::List(_) | MV::Rec(_) | MV::Str(_) | MV::Fn(_))));
        ctx.label(if ok_all { "all-statements-ok" } else { "some-statement-fails" });
        if ok_all && heapy {
            ctx.nontrivial(hash_str(&text));
        }
        if digest(&o1, &snap1) != digest(&o2, &snap2) {
            let i = o1.iter().zip(&o2).position(|(a, b)| a != b);
            fail!(
                "rerun:differs",
                "two evaluations of the same program differ (first differing statement {:?}): {:?} vs {:?}\n--- program:\n{}",
                i.map(|i| lines[i].clone()),
                i.map(|i| o1[i].clone()),
                i.map(|i| o2[i].clone()),
                text
            );
        }
        // same heap, fresh environment: all heap indices are shifted
        let s3 = s1.fresh_env_same_heap();
        let (o3, snap3) = observe(&lines, &c.n_input, &s3);
        if digest(&o1, &snap1) != digest(&o3, &snap3) {
            let i = o1.iter().zip(&o3).position(|(a, b)| a != b);
            fail!("shifted-heap:differs", "evaluating the program again in an already used heap gives a different result at {:?}: {:?} vs {:?}\n--- program:\n{}", i.map(|i| lines[i].clone()), i.map(|i| o1[i].clone()), i.map(|i| o3[i].clone()), text);
        }
        // (c) fresh OS process
        if c.process {
            ctx.label("fresh-process");
            let exe = std::env::current_exe().unwrap().to_string_lossy().into_owned();
            let payload = serde_json::json!({"lines": lines, "n": c.n_input}).to_string();
            match run_proc(&exe, &["eval".into(), ctx.prop.clone()], Some(payload.as_bytes()), None, &Limits::default()) {
                Ok(r) if r.code == Some(0) => {
                    if r.stdout.trim() != digest(&o1, &snap1) {
                        fail!("fresh-process:differs", "a fresh process evaluates the program differently from this (long-running) process\n--- fresh: {}\n--- here:  {}\n--- program:\n{}", r.stdout.trim().chars().take(700).collect::<String>(), digest(&o1, &snap1).chars().take(700).collect::<String>(), text);
                    }
                }
                Ok(r) => fail!("fresh-process:crashed", "bv eval: {} {}", r.describe(), r.stderr),
                Err(e) => fail!("fresh-process:spawn", "{}", e),
            }
        }
        if c.cli && ok_all && c.n_input.all_finite() && !c.n_input.has_nan() {
            self.cli(c, &lines, &o1, ctx)?;
        }
        // (d) idempotent evaluation and (e) let-abstraction on the last statement
        let Some(E::Assign(name, rhs)) = c.prog.last() else { return Ok(()) };
        let before: Vec<String> = lines[..lines.len() - 1].to_vec();
        let rhs_text = print_min(rhs);
        let run_variant = |extra: &[String]| -> Vec<Obs> {
            let s = Sess::new();
            let mut all = before.clone();
            all.extend_from_slice(extra);
            observe(&all, &c.n_input, &s).0
        };
        if !has_assign(rhs) {
            let twice = run_variant(&[format!("chk = [{}, {}]", rhs_text, rhs_text)]);
            let bound = run_variant(&[format!("{} = {}", name, rhs_text), format!("chk = [{}, {}]", name, name)]);
            let (a, b) = (twice.last().unwrap(), bound.last().unwrap());
            let direct = o1.last().unwrap();
            let want: Obs = direct.clone().map(|v| MV::List(vec![v.clone(), v]));
            if !same_value(a, &want) || !same_value(b, &want) {
                fail!("twice:differs", "`{}` evaluates to {:?}; [e, e] gives {:?} and [t, t] after t = e gives {:?}\n--- program:\n{}", rhs_text, direct, a, b, text);
            }
        }
        let mut cands: Vec<&E> = Vec::new();
        always_evaluated(rhs, &mut cands);
        cands.retain(|e| e.size() > 1 && !has_assign(e) && !matches!(e, E::Spread(_)));
        if cands.is_empty() || has_assign(rhs) {
            return Ok(());
        }
        // prefer sub-expressions that occur more than once
        cands.sort_by_key(|e| std::cmp::Reverse(cands_count(rhs, e)));
        let mut target = cands[crate::engine::pick_idx(c.pick, cands.len().min(4))].clone();
        // half of the time, when there is one: an element of a list literal handed to an
        // order-sensitive built-in (binding it first changes the order of allocation)
        let items: Vec<&E> = cands
            .iter()
            .filter_map(|e| match e {
                E::Call(f, args) if matches!(&**f, E::BuiltIn(n) if ["sort", "sort_by", "unique", "reverse", "max", "min"].contains(&n.as_str())) => match args.first() {
                    Some(E::List(items)) => Some(items.iter().filter(|i| i.size() > 1 && !has_assign(i) && !matches!(i, E::Spread(_))).collect::<Vec<&E>>()),
                    _ => None,
                },
                _ => None,
            })
            .flatten()
            .collect();
        if !items.is_empty() && c.pick % 2 == 0 {
            target = items[(c.pick as usize / 2) % items.len()].clone();
            ctx.label("let-abstraction:list-item-of-ordering-call");
        }
        ctx.label("let-abstraction");
        let replaced = replace_all(rhs, &target, &E::Id("tq".into()));
        let variant = run_variant(&[format!("tq = {}", print_min(&target)), format!("{} = {}", name, print_min(&replaced))]);
        let direct = o1.last().unwrap();
        let abstracted = variant.last().unwrap();
        // if binding tq itself fails, the original must fail too
        if !same_value(direct, abstracted) {
            fail!(
                "let-abstraction:differs",
                "`{} = {}` gives {:?}, but after `tq = {}` the statement `{} = {}` gives {:?}\n--- program:\n{}",
                name,
                rhs_text,
                direct,
                print_min(&target),
                name,
                print_min(&replaced),
                abstracted,
                text
            );
        }
        Ok(())
    }
}

fn cands_count(root: &E, target: &E) -> usize {
    let mut v = Vec::new();
    always_evaluated(root, &mut v);
    v.iter().filter(|e| **e == target).count()
}

impl Deterministic {
    fn cli(&self, c: &Case, lines: &[String], o1: &[Obs], ctx: &mut Ctx) -> Outcome {
        ctx.label("cli");
        let mut script = lines.join("\n");
        let npre = typed::PRELUDE.lines().count();
        let mut expect: Vec<(String, MV)> = Vec::new();
        for (i, st) in c.prog.iter().enumerate() {
            if let (E::Assign(name, _), Ok(v)) = (st, &o1[npre + i]) {
                if !matches!(v, MV::Fn(_)) && v.all_finite() && !v.has_nan() {
                    script.push_str(&format!("\noutput {}", name));
                    expect.push((name.clone(), v.clone()));
                }
            }
        }
        script.push('\n');
        let dir = crate::engine::proc::scratch_dir("c02");
        let p = format!("{}/p.blots", dir);
        std::fs::write(&p, &script).unwrap();
        let input = format!("{{\"n\": {}}}", crate::model::json::write(&c.n_input, 0));
        // the same inputs reach the program by flag, by an immediate pipe, or from a slow
        // producer (late, in two pieces): the run must not depend on which
        let r = match c.pick % 8 {
            0 | 1 | 2 => {
                ctx.label("cli:inputs-piped");
                crate::engine::proc::run_paced(&ctx.cli_path, &[p.clone()], Some(input.as_bytes()), None, &Limits::default(), None)
            }
            3 => {
                ctx.label("cli:inputs-piped-late");
                crate::engine::proc::run_paced(&ctx.cli_path, &[p.clone()], Some(input.as_bytes()), None, &Limits::default(), Some((0, std::time::Duration::from_millis(450))))
            }
            4 => {
                ctx.label("cli:inputs-piped-in-pieces");
                crate::engine::proc::run_paced(&ctx.cli_path, &[p.clone()], Some(input.as_bytes()), None, &Limits::default(), Some((4, std::time::Duration::from_millis(700))))
            }
            _ => run_proc(&ctx.cli_path, &["-i".into(), input, p.clone()], None, None, &Limits::default()),
        };
        let _ = std::fs::remove_dir_all(&dir);
        let r = match r {
            Ok(r) => r,
            Err(e) => fail!("cli:spawn", "{}", e),
        };
        if r.timed_out {
            return Ok(());
        }
        if r.code != Some(0) {
            fail!("cli:fails", "the CLI fails ({}) on a program that evaluates in-process: {}{}\n--- script:\n{}", r.describe(), r.stdout, r.stderr, script);
        }
        match crate::model::json::parse(r.stdout.trim()) {
            Ok(MV::Rec(fields)) => {
                for (k, v) in &expect {
                    match fields.iter().find(|(k2, _)| k2 == k) {
                        Some((_, got)) if got.model_eq(v) => {}
                        other => fail!("cli:differs", "CLI output {} = {:?}, in-process value {:?}\n--- script:\n{}", k, other.map(|x| &x.1), v, script),
                    }
                }
                Ok(())
            }
            other => fail!("cli:bad-output", "CLI printed {:?}", other),
        }
    }
}

pub fn strategy() -> BoxedStrategy<Case> {
    (
        prop::collection::vec(any::<u16>(), 0..300),
        prop_oneof![Just(num(4.0)), Just(num(-1.5)), Just(num(0.0)), Just(num(f64::NAN))],
        any::<u16>(),
        prop::bool::weighted(0.12),
        prop::bool::weighted(0.04),
    )
        .prop_map(|(tape, n_input, pick, process, cli)| {
            let mut tp = Tape::new(&tape);
            let (mut prog, _) = typed::program(&mut tp, 5, 5, true);
            // now and then a statement about function naming (factory-made recursive functions,
            // parameters that carry the function's own name)
            if pick % 5 == 0 {
                let e = typed::naming_expressions(&mut tp);
                prog.push(E::Assign(format!("zn{}", prog.len()), Box::new(e)));
            }
            Case { prog, n_input, pick, process, cli }
        })
        .boxed()
}

/// designed let-abstractions around function naming: (program, the same program with one
/// sub-expression bound to a fresh name first); both must give the same `r`
pub const LET_PAIRS: &[(&str, &str)] = &[
    ("r = (() => do {\n  go = q => if q <= 0 then 0 else go(q - 1) + 1\n  return go\n})()(3)", "t = (() => do {\n  go = q => if q <= 0 then 0 else go(q - 1) + 1\n  return go\n})()\nr = t(3)"),
    ("r = do {\n  fct = do {\n    g = n => if n <= 1 then 1 else n * g(n - 1)\n    return g\n  }\n  return fct(5)\n}", "t = do {\n  g = n => if n <= 1 then 1 else n * g(n - 1)\n  return g\n}\nr = do {\n  fct = t\n  return fct(5)\n}"),
    ("r = do {\n  w9 = (w9, k9) => w9 * k9\n  return w9(21, 2)\n}", "t = (w9, k9) => w9 * k9\nr = do {\n  w9 = t\n  return w9(21, 2)\n}"),
    ("w8 = (w8, k9) => w8 * k9\nr = w8(21, 2)", "t = (w8, k9) => w8 * k9\nw8 = t\nr = w8(21, 2)"),
    ("o8 = (x, o8?) => o8 ?? x\nr = o8(7)", "t = (x, o8?) => o8 ?? x\no8 = t\nr = o8(7)"),
    ("acc = (acc, x) => acc + x\nr = reduce([1, 2, 3], acc, 0)", "t = (acc, x) => acc + x\nacc = t\nr = reduce([1, 2, 3], acc, 0)"),
    ("r = [n => n + 1, n => n * 2] via (f => f(5))", "t = n => n + 1\nr = [t, n => n * 2] via (f => f(5))"),
    ("fs = [n => if n <= 0 then 0 else 1 + fs[0](n - 1)]\nr = fs[0](3)", "t = n => if n <= 0 then 0 else 1 + fs[0](n - 1)\nfs = [t]\nr = fs[0](3)"),
    ("r = sort([{k: 2}, {k: 1}])", "t = {k: 1}\nr = sort([{k: 2}, t])"),
    ("r = [random(0.5), random(7), random(0 - 2.25), random(1 / 3), random(1e300)]", "t = 0.5\nr = [random(t), random(7), random(0 - 2.25), random(1 / 3), random(1e300)]"),
    ("r = [1, 2, 3] via (q => random(q + 0.25))", "t = q => random(q + 0.25)\nr = [1, 2, 3] via t"),
    ("r = keys(count_by([\"b\", \"a\", \"c\", \"a\"], s => s))", "t = count_by([\"b\", \"a\", \"c\", \"a\"], s => s)\nr = keys(t)"),
    // an operand that has a name must read the same after the operation (no result is built in place)
    ("sep = \"-\"\nr = [\"ab\" + sep, \"ab\"]", "sep = \"-\"\nt = \"ab\"\nr = [t + sep, t]"),
    ("sep = \"-\"\nr = [\"ab\" + sep + sep, \"ab\", \"ab\" + sep]", "sep = \"-\"\nt = \"ab\"\nr = [t + sep + sep, t, t + sep]"),
    ("o = {s: \"-\"}\nr = do {\n  u = \"ab\" + o.s\n  return [u, \"ab\"]\n}", "o = {s: \"-\"}\nr = do {\n  w = \"ab\"\n  u = w + o.s\n  return [u, w]\n}"),
    ("r = do {\n  u = (s = \"ab\") + \"c\"\n  return [s, u]\n}", "t = \"ab\"\nr = do {\n  u = (s = t) + \"c\"\n  return [s, u]\n}"),
    ("idf = q => q\nr = do {\n  u = idf(s = \"ab\") + \"c\"\n  return [s, u]\n}", "idf = q => q\nt = \"ab\"\nr = do {\n  u = idf(s = t) + \"c\"\n  return [s, u]\n}"),
    ("r = do {\n  u = (p = [\"k\", \"l\"])[0] + \"!\"\n  return [p, u]\n}", "t = [\"k\", \"l\"]\nr = do {\n  u = (p = t)[0] + \"!\"\n  return [p, u]\n}"),
    ("one = 1\nr = [[1, 2] + one, [1, 2], [1, 2] * 2]", "one = 1\nt = [1, 2]\nr = [t + one, t, t * 2]"),
    ("r = [sort([3, 1, 2]), [3, 1, 2], reverse([3, 1, 2]), [3, 1, 2]]", "t = [3, 1, 2]\nr = [sort(t), t, reverse(t), t]"),
    ("r = [{...{a: 1}, b: 2}, {a: 1}, concat([3, 1, 2], [4]), uppercase(\"ab\"), \"ab\"]", "t = {a: 1}\nl = [3, 1, 2]\nw = \"ab\"\nr = [{...t, b: 2}, t, concat(l, [4]), uppercase(w), w]"),
    ("r = [[...[1, 2], 3], [1, 2], [\"x\"] + \"y\", [\"x\"]]", "t = [1, 2]\nq = [\"x\"]\nr = [[...t, 3], t, q + \"y\", q]"),
];

/// a long, ordinary program (a table of 6000 rows, about 150 KB of text) evaluated after a short one
/// in the same process: its value is known in advance, whatever was parsed or evaluated before
pub struct LongAfterShort;

pub fn long_program(rows: usize) -> (String, f64) {
    let mut src = String::from("rows = [\n");
    let mut total = 0.0;
    for i in 0..rows {
        src.push_str(&format!("  [{}, {}.5, \"row {}\", {}],\n", i, i % 97, i, if i % 2 == 0 { "true" } else { "false" }));
        total += i as f64 + (i % 97) as f64 + 0.5;
    }
    src.push_str("]\nr = sum(rows via (q => q[0] + q[1]))\n");
    (src, total)
}

impl Check for LongAfterShort {
    type Case = u16;
    fn name(&self) -> &'static str {
        "long-after-short"
    }
    fn run(&self, c: &u16, ctx: &mut Ctx) -> Outcome {
        ctx.label("long-program-after-short-one");
        ctx.nontrivial(*c as u64);
        let rows = 3000 + (*c as usize % 4) * 1500;
        let (src, total) = long_program(rows);
        // what ran before: nothing, a short text, a short text that fails to parse, a short function input
        let before = ["", "1 + 1", "((", "f = x => x * 2\nf(2)"][*c as usize / 4 % 4];
        if !before.is_empty() {
            let s = Sess::new();
            let _ = s.run_program(before);
        }
        let s = Sess::new();
        match s.run_program(&src) {
            Ok(obs) => match obs.last() {
                Some(Ok(MV::Num(x))) if x.0 == total => Ok(()),
                other => fail!("long-after-short:wrong-result", "a {}-row table program ({} bytes) evaluated after {:?} gave {:?}, expected {}", rows, src.len(), before, other.map(|o| format!("{:?}", o).chars().take(200).collect::<String>()), total),
            },
            Err(e) => fail!("long-after-short:rejected", "a {}-row table program ({} bytes) evaluated after {:?} was rejected: {}", rows, src.len(), before, e.chars().take(300).collect::<String>()),
        }
    }
}


pub struct LetPairs;

impl Check for LetPairs {
    type Case = u8;
    fn name(&self) -> &'static str {
        "let-pairs"
    }
    fn run(&self, c: &u8, ctx: &mut Ctx) -> Outcome {
        let (direct, abstracted) = LET_PAIRS[*c as usize % LET_PAIRS.len()];
        ctx.label("designed-let-abstraction");
        ctx.nontrivial(hash_str(direct));
        let run = |src: &str| -> Obs {
            let s = Sess::new();
            s.set_inputs(&[]);
            for st in src.split("\n").fold(Vec::<String>::new(), |mut acc, line| {
                // statements span several lines when a do-block is open
                if let Some(last) = acc.last_mut() {
                    if last.matches('{').count() > last.matches('}').count() {
                        last.push('\n');
                        last.push_str(line);
                        return acc;
                    }
                }
                acc.push(line.to_string());
                acc
            }) {
                s.obs(&st)?;
            }
            s.obs("r")
        };
        let (a, b) = (run(direct), run(abstracted));
        let same = match (&a, &b) {
            (Ok(x), Ok(y)) => x.same_nanclass(y),
            (Err(_), Err(_)) => true,
            _ => false,
        };
        if !same {
            fail!(format!("let-pair:differs:{}", c), "the program\n{}\ngives r = {:?}; with one sub-expression bound to a fresh name first\n{}\nit gives r = {:?}", direct, a, abstracted, b);
        }
        // the first of the two must also be stable under re-evaluation
        let again = run(direct);
        if !matches!((&a, &again), (Ok(x), Ok(y)) if x.same_nanclass(y)) && !(a.is_err() && again.is_err()) {
            fail!("let-pair:rerun-differs", "two evaluations of\n{}\ngive {:?} and {:?}", direct, a, again);
        }
        Ok(())
    }
}

pub fn run(ctx: &mut Ctx) {
    ctx.run_enum(&LetPairs, (0..LET_PAIRS.len() as u8).into_iter(), false);
    ctx.run_enum(&LongAfterShort, (0..16u16).into_iter(), false);
    ctx.run_random(&Deterministic, strategy(), ctx.tier.pick(20_000, 300_000));
}
