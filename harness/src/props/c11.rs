//! C11 — scalar operator semantics and the broadcasting law.

use crate::blots::Sess;
use crate::engine::{Check, Ctx, Outcome, hash_str, pick_idx};
use crate::fail;
use crate::model::mv::{num, s};
use crate::model::prec::{BROADCAST_OPS, DOT_OPS, Op};
use crate::model::{F, MV};
use proptest::prelude::*;
use serde::{Deserialize, Serialize};
use std::cmp::Ordering;

pub const RULE: &str = "enumerated: every operator (17 broadcasting + 6 dot) x shape {scalar-scalar, list-scalar, scalar-list, list-list} x ordered pair of element types {number, string, boolean, null, list, record, mixed} x deterministic representatives (lengths 0,1,3, mismatched, ill-typed element at position k>0); random: operator x operands with random contents (numbers incl. NaN, +-inf, +-0), lengths 0..8, correlated lengths; whole-number bases -12..12 (and 10, 2, 1024, ...) raised to whole exponents up to +-1100 and to fractions 1/k in all four shapes; strings with supplementary-plane characters next to U+E000..U+FFFF. Operands are materialised in a fresh heap, `l OP r` - and `l OP l`, the same heap object on both sides - is evaluated through parser and evaluator and compared with a harness model applying an independent scalar operator per element. For the six arithmetic operators the compound forms `l OP (r OP2 l)`, `l OP (r OP r)`, `(l OP r) OP2 l` and operands written as pipelines (`(l into id) OP r`, `l OP (r into id)`, `([l] via id)[0] OP r`) must give the operator applied to the values of the operands, and l and r must read unchanged afterwards. Non-trivial = a non-empty list operand with at least one successful element operation, or a designed failure (length mismatch / ill-typed element at position > 0); distinct by (operator, operands).";
pub const ASSUMPTIONS: &[&str] = &[
    "IEEE-754 results are taken from Rust's own f64 operators (+ - * / % powf), the arithmetic the statement names",
    "for and/or with a left operand that already decides the result and a non-boolean right operand the statement does not say whether the right operand is inspected; the oracle accepts either outcome there",
    "functions are not used as elements (function equality is outside the statement)",
];

#[derive(Clone, Debug, Serialize, Deserialize)]
pub struct Case {
    pub op: Op,
    pub l: MV,
    pub r: MV,
}

#[derive(Debug, Clone, PartialEq)]
pub enum Expect {
    Value(MV),
    Error,
    /// statement leaves it open: this value or an error
    ValueOrError(MV),
}

fn arith(op: Op, a: f64, b: f64) -> f64 {
    match op {
        Op::Add => a + b,
        Op::Sub => a - b,
        Op::Mul => a * b,
        Op::Div => a / b,
        Op::Mod => a % b,
        Op::Pow => a.powf(b),
        _ => unreachable!(),
    }
}

/// the scalar operator of the statement, on whole values
pub fn scalar_op(op: Op, a: &MV, b: &MV) -> Expect {
    use Expect::*;
    match op {
        Op::Add => match (a, b) {
            (MV::Num(F(x)), MV::Num(F(y))) => Value(num(x + y)),
            (MV::Str(x), MV::Str(y)) => Value(MV::Str(format!("{}{}", x, y))),
            _ => Error,
        },
        Op::Sub | Op::Mul | Op::Div | Op::Mod | Op::Pow => match (a, b) {
            (MV::Num(F(x)), MV::Num(F(y))) => Value(num(arith(op, *x, *y))),
            _ => Error,
        },
        Op::Eq | Op::DEq => Value(MV::Bool(a.model_eq(b))),
        Op::Ne | Op::DNe => Value(MV::Bool(!a.model_eq(b))),
        Op::Lt | Op::Le | Op::Gt | Op::Ge | Op::DLt | Op::DLe | Op::DGt | Op::DGe => match a.model_cmp(b) {
            None => Error,
            Some(o) => Value(MV::Bool(match op {
                Op::Lt | Op::DLt => o == Ordering::Less,
                Op::Le | Op::DLe => o != Ordering::Greater,
                Op::Gt | Op::DGt => o == Ordering::Greater,
                _ => o != Ordering::Less,
            })),
        },
        Op::AndSym | Op::AndWord | Op::OrSym | Op::OrWord => {
            let is_and = matches!(op, Op::AndSym | Op::AndWord);
            match (a, b) {
                (MV::Bool(x), MV::Bool(y)) => Value(MV::Bool(if is_and { *x && *y } else { *x || *y })),
                (MV::Bool(x), _) => {
                    // left operand decides? then the statement leaves the right one open
                    if *x != is_and {
                        ValueOrError(MV::Bool(*x))
                    } else {
                        Error
                    }
                }
                _ => Error,
            }
        }
        Op::Coalesce => Value(if matches!(a, MV::Null) { b.clone() } else { a.clone() }),
        Op::Via | Op::Into | Op::Where => unreachable!(),
    }
}

pub fn model(op: Op, l: &MV, r: &MV) -> Expect {
    if DOT_OPS.contains(&op) {
        return scalar_op(op, l, r);
    }
    let pairs: Vec<(MV, MV)> = match (l, r) {
        (MV::List(a), MV::List(b)) => {
            if a.len() != b.len() {
                return Expect::Error;
            }
            a.iter().cloned().zip(b.iter().cloned()).collect()
        }
        (MV::List(a), b) => a.iter().map(|x| (x.clone(), b.clone())).collect(),
        (a, MV::List(b)) => b.iter().map(|y| (a.clone(), y.clone())).collect(),
        (a, b) => return scalar_op(op, a, b),
    };
    let mut out = Vec::new();
    let mut open = false;
    for (a, b) in pairs {
        match scalar_op(op, &a, &b) {
            Expect::Value(v) => out.push(v),
            Expect::Error => return Expect::Error,
            Expect::ValueOrError(v) => {
                open = true;
                out.push(v)
            }
        }
    }
    if open { Expect::ValueOrError(MV::List(out)) } else { Expect::Value(MV::List(out)) }
}

fn tclass(v: &MV) -> String {
    match v {
        MV::List(l) => {
            if l.is_empty() {
                "list<empty>".into()
            } else {
                let t0 = l[0].type_name();
                if l.iter().all(|x| x.type_name() == t0) {
                    format!("list<{}>", t0)
                } else {
                    "list<mixed>".into()
                }
            }
        }
        other => other.type_name().into(),
    }
}

fn shape(l: &MV, r: &MV) -> &'static str {
    match (matches!(l, MV::List(_)), matches!(r, MV::List(_))) {
        (true, true) => "list-list",
        (true, false) => "list-scalar",
        (false, true) => "scalar-list",
        (false, false) => "scalar-scalar",
    }
}

pub struct Broadcast;

impl Check for Broadcast {
    type Case = Case;
    fn name(&self) -> &'static str {
        "broadcast"
    }
    fn run(&self, c: &Case, ctx: &mut Ctx) -> Outcome {
        let sess = Sess::new();
        sess.bind("l", &c.l);
        sess.bind("r", &c.r);
        let src = format!("l {} r", c.op.text());
        let got = sess.probe(&src);
        let want = model(c.op, &c.l, &c.r);
        let sh = shape(&c.l, &c.r);
        let is_dot = DOT_OPS.contains(&c.op);
        ctx.label(if is_dot { "dot-operator" } else { sh });
        let elem_ok = match &want {
            Expect::Value(MV::List(v)) | Expect::ValueOrError(MV::List(v)) => !v.is_empty(),
            _ => false,
        };
        let designed_failure = matches!(want, Expect::Error) && sh != "scalar-scalar";
        if (elem_ok && sh != "scalar-scalar") || designed_failure {
            ctx.nontrivial(hash_str(&format!("{:?}", c)));
        }
        ctx.label(match &want {
            Expect::Value(_) => "expect-value",
            Expect::Error => "expect-error",
            Expect::ValueOrError(_) => "expect-open",
        });
        let ok = match (&want, &got) {
            (Expect::Value(w), Ok(g)) => w.same_nanclass(g),
            (Expect::Error, Err(_)) => true,
            (Expect::ValueOrError(w), Ok(g)) => w.same_nanclass(g),
            (Expect::ValueOrError(_), Err(_)) => true,
            _ => false,
        };
        if !ok {
            let outcome = match (&want, &got) {
                (Expect::Error, Ok(_)) => "value-instead-of-error",
                (_, Err(_)) => "error-instead-of-value",
                _ => "wrong-value",
            };
            fail!(
                format!("{}:{}:{}:{}:{}", c.op.text(), sh, tclass(&c.l), tclass(&c.r), outcome),
                "`l {} r` with l = {} and r = {} evaluated to {:?}; the per-element model expects {:?}",
                c.op.text(),
                c.l.to_source(false),
                c.r.to_source(false),
                got,
                want
            );
        }
        // the same operation with the left operand written as a literal directly against the
        // operator (`3.==r`, `2<r`): spaces around an operator are optional layout
        if let MV::Num(F(x)) = &c.l
            && x.fract() == 0.0
            && *x >= 0.0
            && *x < 1e15
            && !x.is_sign_negative()
            && !matches!(c.op, Op::Ne | Op::AndWord | Op::OrWord)
        {
            let compact = format!("{}{}r", *x as u64, c.op.text());
            let got_c = sess.probe(&compact);
            let ok_c = match (&want, &got_c) {
                (Expect::Value(w), Ok(g)) | (Expect::ValueOrError(w), Ok(g)) => w.same_nanclass(g),
                (Expect::Error, Err(_)) | (Expect::ValueOrError(_), Err(_)) => true,
                _ => false,
            };
            if !ok_c {
                fail!(
                    format!("{}:literal-left-compact:{}:{}", c.op.text(), tclass(&c.r), if got_c.is_ok() { "wrong-value-or-missing-error" } else { "error-instead-of-value" }),
                    "`{}` with r = {} evaluated to {:?}; the per-element model expects {:?}",
                    compact,
                    c.r.to_source(false),
                    got_c,
                    want
                );
            }
        }
        // the same heap object on both sides (`l OP l`): the per-element law does not care
        let got_alias = sess.probe(&format!("l {} l", c.op.text()));
        let want_alias = model(c.op, &c.l, &c.l);
        let ok_alias = match (&want_alias, &got_alias) {
            (Expect::Value(w), Ok(g)) | (Expect::ValueOrError(w), Ok(g)) => w.same_nanclass(g),
            (Expect::Error, Err(_)) | (Expect::ValueOrError(_), Err(_)) => true,
            _ => false,
        };
        if !ok_alias {
            fail!(
                format!("{}:same-object:{}:{}", c.op.text(), tclass(&c.l), if got_alias.is_ok() { "wrong-value-or-missing-error" } else { "error-instead-of-value" }),
                "`l {} l` (one heap object on both sides) with l = {} evaluated to {:?}; the per-element model expects {:?}",
                c.op.text(),
                c.l.to_source(false),
                got_alias,
                want_alias
            );
        }
        // compound expressions: the value of `l OP (r OP2 l)` is the operator applied to the value
        // of its operands, whatever those operands look like (parenthesised sums are not
        // re-associated, operands that are pipelines are not special)
        const ARITH: [Op; 6] = [Op::Add, Op::Sub, Op::Mul, Op::Div, Op::Mod, Op::Pow];
        if ARITH.contains(&c.op) {
            let op2 = ARITH[(hash_str(&format!("{:?}", c)) % 6) as usize];
            let nest = |outer: Op, a: &MV, inner: Expect, inner_left: bool| -> Option<Expect> {
                match inner {
                    Expect::Value(v) => Some(if inner_left { model(outer, &v, a) } else { model(outer, a, &v) }),
                    Expect::Error => Some(Expect::Error),
                    Expect::ValueOrError(_) => None,
                }
            };
            let forms: Vec<(String, Option<Expect>)> = vec![
                (format!("l {} (r {} l)", c.op.text(), op2.text()), nest(c.op, &c.l, model(op2, &c.r, &c.l), false)),
                (format!("l {} (r {} r)", c.op.text(), c.op.text()), nest(c.op, &c.l, model(c.op, &c.r, &c.r), false)),
                (format!("(l {} r) {} l", c.op.text(), op2.text()), nest(op2, &c.l, model(c.op, &c.l, &c.r), true)),
                (format!("(l into keep_c11) {} r", c.op.text()), Some(want.clone())),
                (format!("l {} (r into keep_c11)", c.op.text()), Some(want.clone())),
                (format!("([l] via keep_c11)[0] {} r", c.op.text()), Some(want.clone())),
            ];
            let _ = sess.eval_src("keep_c11 = v => v");
            for (src2, want2) in forms {
                let Some(want2) = want2 else { continue };
                let got2 = sess.probe(&src2);
                let ok2 = match (&want2, &got2) {
                    (Expect::Value(w), Ok(g)) | (Expect::ValueOrError(w), Ok(g)) => w.same_nanclass(g),
                    (Expect::Error, Err(_)) | (Expect::ValueOrError(_), Err(_)) => true,
                    _ => false,
                };
                if !ok2 {
                    let form = src2.replace(c.op.text(), "OP").replace(op2.text(), "OP");
                    fail!(
                        format!("compound:{}:{}:{}", form, sh, if got2.is_ok() { "wrong-value-or-missing-error" } else { "error-instead-of-value" }),
                        "`{}` with l = {} and r = {} evaluated to {:?}; applying the operators to the values of their operands gives {:?}",
                        src2,
                        c.l.to_source(false),
                        c.r.to_source(false),
                        got2,
                        want2
                    );
                }
            }
        }
        // evaluating operators has no effect on their operands
        for (name, orig) in [("l", &c.l), ("r", &c.r)] {
            match sess.probe(name) {
                Ok(v) if v.same_nanclass(orig) => {}
                other => fail!(
                    format!("operand-changed:{}:{}", c.op.text(), sh),
                    "after evaluating `l {} r` and its variants, {} = {} reads as {:?}",
                    c.op.text(),
                    name,
                    orig.to_source(false),
                    other
                ),
            }
        }
        // dot operators never return a list
        if is_dot && matches!(got, Ok(MV::List(_))) {
            fail!(format!("{}:dot-broadcasts", c.op.text()), "dot operator returned a list");
        }
        Ok(())
    }
}

const NUMS: &[f64] = &[
    1.0,
    -2.0,
    0.5,
    0.0,
    -0.0,
    3.0,
    f64::NAN,
    f64::INFINITY,
    f64::NEG_INFINITY,
    1e308,
    5e-324,
    7.0,
    -7.5,
    2.0,
];

fn reps(t: &str) -> Vec<MV> {
    match t {
        "number" => vec![num(3.0), num(-2.5), num(0.0), num(f64::NAN), num(f64::INFINITY)],
        "string" => vec![s("a"), s(""), s("é")],
        "boolean" => vec![MV::Bool(true), MV::Bool(false)],
        "null" => vec![MV::Null],
        "list" => vec![MV::List(vec![num(1.0), num(2.0)]), MV::List(vec![])],
        "record" => vec![MV::Rec(vec![("a".into(), num(1.0))]), MV::Rec(vec![])],
        _ => vec![],
    }
}

const TYPES: [&str; 6] = ["number", "string", "boolean", "null", "list", "record"];

/// deterministic list representatives of element type t: lengths 0, 1, 3 and a list whose
/// element at position 2 has another type
fn list_reps(t: &str, other: &str) -> Vec<MV> {
    let r = reps(t);
    let o = reps(other);
    let mut out = vec![MV::List(vec![]), MV::List(vec![r[0].clone()])];
    out.push(MV::List((0..3).map(|i| r[i % r.len()].clone()).collect()));
    out.push(MV::List(vec![r[0].clone(), r[r.len() - 1].clone(), o[0].clone()]));
    out
}

fn enumerated() -> Vec<Case> {
    let mut v = Vec::new();
    let ops: Vec<Op> = BROADCAST_OPS.iter().chain(DOT_OPS.iter()).copied().collect();
    for &op in &ops {
        for ta in TYPES {
            for tb in TYPES {
                // scalar-scalar
                for a in reps(ta) {
                    for b in reps(tb) {
                        v.push(Case {
                            op,
                            l: a.clone(),
                            r: b.clone(),
                        });
                    }
                }
                // list-scalar and scalar-list
                for l in list_reps(ta, tb) {
                    for b in reps(tb).into_iter().take(2) {
                        v.push(Case {
                            op,
                            l: l.clone(),
                            r: b.clone(),
                        });
                        v.push(Case {
                            op,
                            l: b.clone(),
                            r: l.clone(),
                        });
                    }
                }
                // list-list (equal and mismatched lengths)
                for l in list_reps(ta, tb) {
                    for r in list_reps(tb, ta) {
                        v.push(Case {
                            op,
                            l: l.clone(),
                            r: r.clone(),
                        });
                    }
                }
            }
        }
    }
    v
}

fn elem(kind: u8) -> BoxedStrategy<MV> {
    match kind {
        0 => prop_oneof![
            3 => any::<u16>().prop_map(|i| num(NUMS[pick_idx(i, NUMS.len())])),
            1 => crate::gen_::any_f64().prop_map(num),
        ]
        .boxed(),
        // strings incl. supplementary-plane characters next to U+E000..U+FFFF (code-point order
        // and UTF-16 code-unit order differ there)
        1 => prop::sample::select(vec!["", "a", "b", "ab", "é", "1", "😀", "\u{ff21}", "\u{fffd}x", "\u{e000}", "a😀", "a\u{ff21}", "\u{10000}", "z"]).prop_map(s).boxed(),
        2 => any::<bool>().prop_map(MV::Bool).boxed(),
        3 => Just(MV::Null).boxed(),
        4 => prop::collection::vec(any::<u16>().prop_map(|i| num(NUMS[pick_idx(i, NUMS.len())])), 0..3)
            .prop_map(MV::List)
            .boxed(),
        5 => prop_oneof![
            Just(MV::Rec(vec![])),
            Just(MV::Rec(vec![("a".into(), num(1.0)), ("b".into(), num(2.0))])),
            Just(MV::Rec(vec![("b".into(), num(2.0)), ("a".into(), num(1.0))])),
        ]
        .boxed(),
        _ => prop_oneof![elem(0), elem(1), elem(2), elem(3), elem(4), elem(5)].boxed(),
    }
}

/// an operand: scalar or list (mostly homogeneous, sometimes with one foreign element)
fn operand(kind: u8, len: usize, as_list: bool) -> BoxedStrategy<MV> {
    if !as_list {
        return elem(kind);
    }
    (prop::collection::vec(elem(kind), len..=len), prop::option::weighted(0.15, (any::<u16>(), elem(6))))
        .prop_map(|(mut v, foreign)| {
            if let Some((i, f)) = foreign
                && !v.is_empty()
            {
                let k = pick_idx(i, v.len());
                v[k] = f;
            }
            MV::List(v)
        })
        .boxed()
}

fn random_case() -> BoxedStrategy<Case> {
    let ops: Vec<Op> = BROADCAST_OPS.iter().chain(DOT_OPS.iter()).copied().collect();
    (
        prop::sample::select(ops),
        0u8..7,
        0u8..7,
        0usize..9,
        prop::option::weighted(0.2, 0usize..9),
        0u8..8,
        any::<bool>(),
    )
        .prop_flat_map(|(op, ka, kb, len, other_len, shape, same_kind)| {
            // operand kinds: prefer the kinds the operator is defined on
            let pref = match op {
                Op::AndSym | Op::AndWord | Op::OrSym | Op::OrWord => 2u8,
                Op::Coalesce => 3,
                _ => 0,
            };
            let ka = if same_kind { pref } else { ka };
            let kb = if same_kind { if op == Op::Coalesce { kb } else { pref } } else { kb };
            let (la, lb) = match shape {
                0 => (false, false),
                1 | 2 => (true, false),
                3 | 4 => (false, true),
                _ => (true, true),
            };
            let rlen = other_len.unwrap_or(len);
            (Just(op), operand(ka, len, la), operand(kb, rlen, lb))
        })
        .prop_map(|(op, l, r)| Case { op, l, r })
        .boxed()
}

/// whole-number bases and exponents whose power is huge, tiny, subnormal or inexact
fn integer_powers() -> BoxedStrategy<Case> {
    let base = prop_oneof![3 => (-12i32..13).prop_map(|b| b as f64), 1 => prop::sample::select(vec![10.0, 2.0, -2.0, 3.0, 7.0, 100.0, 1024.0])];
    let exp = prop_oneof![
        2 => (-40i32..41).prop_map(|e| e as f64),
        2 => (-1100i32..1101).prop_map(|e| e as f64),
        1 => prop::sample::select(vec![-1074.0, -1030.0, -310.0, 100.0, 308.0, 53.0, 64.0]),
        // reciprocals of whole numbers and other fractions (negative bases give NaN in IEEE pow)
        2 => (1i32..12, any::<bool>()).prop_map(|(k, neg)| if neg { -1.0 / k as f64 } else { 1.0 / k as f64 }),
        1 => prop::sample::select(vec![0.2, 0.3, 1.5, 2.5, -0.5, 0.1, 1.0 / 3.0]),
    ];
    (base, exp, 0u8..4)
        .prop_map(|(b, e, shape)| match shape {
            0 => Case { op: Op::Pow, l: num(b), r: num(e) },
            1 => Case { op: Op::Pow, l: MV::List(vec![num(b), num(2.0), num(-b)]), r: num(e) },
            2 => Case { op: Op::Pow, l: num(b), r: MV::List(vec![num(e), num(-e), num(e + 1.0)]) },
            _ => Case { op: Op::Pow, l: MV::List(vec![num(b), num(10.0)]), r: MV::List(vec![num(e), num(-e)]) },
        })
        .boxed()
}

pub fn run(ctx: &mut Ctx) {
    ctx.run_enum(&Broadcast, enumerated().into_iter(), true);
    ctx.run_random(&Broadcast, random_case(), ctx.tier.pick(250_000, 5_000_000));
    ctx.run_random(&Broadcast, integer_powers(), ctx.tier.pick(30_000, 300_000));
}
