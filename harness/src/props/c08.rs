//! C08 — formatting is idempotent.

use super::fmt::{self, Case};
use crate::engine::{Check, Ctx, Outcome, hash_str};
use crate::fail;

pub const RULE: &str = "same program / layout / width generator as C07 (comments at the admitted positions, 0-5 blank lines between statements); format(format(p)) == format(p) as strings for format_expr per statement, for the WASM driver loop on whole programs (blank-line clamping, statement-level comments) and, for 8% of the cases, for `blots --format`. Non-trivial = the formatted output spans >= 2 lines or the program has >= 2 statements; distinct by (program text, width).";
pub const ASSUMPTIONS: &[&str] = &["precondition: format(p) parses; when it does not the case is skipped here (that failure belongs to C07)"];

pub struct Idempotent;

fn diff_class(a: &str, b: &str) -> &'static str {
    let (la, lb): (Vec<&str>, Vec<&str>) = (a.lines().collect(), b.lines().collect());
    for i in 0..la.len().max(lb.len()) {
        let (x, y) = (la.get(i).copied().unwrap_or(""), lb.get(i).copied().unwrap_or(""));
        if x != y {
            if !fmt::lex_comments(x).is_empty() || !fmt::lex_comments(y).is_empty() {
                return "comment-placement";
            }
            if x.trim().is_empty() || y.trim().is_empty() {
                return "blank-lines";
            }
            return "line-breaks";
        }
    }
    "other"
}

impl Check for Idempotent {
    type Case = Case;
    fn name(&self) -> &'static str {
        "idempotent"
    }
    fn journal(&self) -> bool {
        true
    }
    fn run(&self, c: &Case, ctx: &mut Ctx) -> Outcome {
        let r = fmt::render(c, true);
        let stmts = match fmt::parse_c(&r.text) {
            Ok(s) => s,
            Err(_) => {
                ctx.discard();
                return Ok(());
            }
        };
        let w = fmt::width_opt(c.width);
        let mut multi = stmts.len() >= 2;
        // library driver
        for s in &stmts {
            let Some(e) = s.stmt.for_format() else { continue };
            let f1 = blots_core::formatter::format_expr(&e, w);
            multi |= f1.contains('\n');
            let Ok(back) = fmt::parse_c(&f1) else {
                ctx.label("skipped:first-pass-unparseable");
                continue;
            };
            let exprs: Vec<_> = back.iter().filter_map(|b| b.stmt.for_format()).collect();
            if exprs.len() != 1 {
                ctx.label("skipped:first-pass-statement-count");
                continue;
            }
            let f2 = blots_core::formatter::format_expr(&exprs[0], w);
            if f1 != f2 {
                fail!(
                    format!("library:{}:{}", diff_class(&f1, &f2), fmt::kind(&e.node)),
                    "format_expr is not idempotent at width {}:\n--- first pass:\n{}\n--- second pass:\n{}\n--- source:\n{}",
                    c.width,
                    f1,
                    f2,
                    r.text
                );
            }
        }
        if multi {
            ctx.nontrivial(hash_str(&format!("{}|{}", r.text, c.width)));
        }
        // WASM driver
        if let Some(w1) = fmt::format_wasm(&r.text, c.width) {
            if fmt::parse_c(&w1).is_ok() {
                ctx.label("wasm-driver");
                match fmt::format_wasm(&w1, c.width) {
                    Some(w2) if w2 == w1 => {}
                    Some(w2) => fail!(
                        format!("wasm:{}", diff_class(&w1, &w2)),
                        "the WASM formatting driver is not idempotent at width {}:\n--- first pass:\n{}\n--- second pass:\n{}\n--- source:\n{}",
                        c.width,
                        w1,
                        w2,
                        r.text
                    ),
                    None => fail!("wasm:second-pass-failed", "second pass produced nothing"),
                }
            } else {
                ctx.label("skipped:first-pass-unparseable");
            }
        }
        if c.cli {
            if let Ok(c1) = fmt::format_cli(ctx, &r.text) {
                if fmt::parse_c(&c1).is_ok() {
                    ctx.label("cli-driver");
                    match fmt::format_cli(ctx, &c1) {
                        Ok(c2) if c2 == c1 => {}
                        Ok(c2) => fail!(format!("cli:{}", diff_class(&c1, &c2)), "`blots --format` is not idempotent:\n--- first pass:\n{}\n--- second pass:\n{}\n--- source:\n{}", c1, c2, r.text),
                        Err(e) => fail!("cli:second-pass-failed", "{}", e),
                    }
                }
            }
        }
        Ok(())
    }
}

pub fn run(ctx: &mut Ctx) {
    ctx.run_random(&Idempotent, fmt::strategy(5, 4), ctx.tier.pick(30_000, 500_000));
    ctx.run_random(&Idempotent, fmt::strategy(2, 7), ctx.tier.pick(10_000, 200_000));
    ctx.run_random(&Idempotent, fmt::typed_strategy(), ctx.tier.pick(6_000, 100_000));
    // programs dominated by nested lambdas (curried, applied, do-block / conditional / list bodies)
    ctx.run_random(&Idempotent, fmt::lambda_heavy_strategy(), ctx.tier.pick(6_000, 120_000));
}
