//! C01 — no input crashes the parse / evaluate / serialise / format pipeline.

use crate::blots::{EvalErr, Sess, Stmt, parse_program};
use crate::engine::proc::{Limits, run as run_proc};
use crate::engine::{Check, Ctx, Outcome, hash_str, pick_idx};
use crate::fail;
use crate::gen_::expr::{Mode, Printer, Tape};
use crate::gen_::typed;
use blots_core::expressions::validate_portable_value;
use blots_core::parser::get_pairs;
use blots_core::values::{SerializableValue, Value};
use proptest::prelude::*;
use serde::{Deserialize, Serialize};
use std::rc::Rc;

pub const RULE: &str = "(1) every built-in (all names of get_built_in_function_idents() except print / time_now) applied to every argument tuple of a boundary pool (NaN, +-inf, +-0, 2^53, +-1e30, 1e15, fractions, negatives; empty / ASCII / non-ASCII / numeric-looking / unit strings; empty, NaN-containing, nested, string and 30-element mixed lists; records; well- and ill-typed lambdas of arity 0/1/2/rest; built-ins as values): exhaustive for 0, 1 and 2 arguments, a 14-value sub-pool for 3 arguments, random tuples for 3-5 arguments; (2) grammar-generated typed programs with ill-typed noise and JSON inputs incl. __blots_function objects whose source is generated, mutated, blank or garbage; (2b) sessions of separately parsed and evaluated texts sharing heap and bindings (REPL / wasm style) in which long, late-failing functions (defined in one text or arriving as JSON inputs, with non-ASCII text before the failing position) are called from short later texts; (2c) inputs maps in the serde form of SerializableValue (how the wasm driver receives inputs) with function bodies that are blank, comments, statements, garbage or late-failing, converted with to_value and called; (3b) each nesting construct (curried lambdas, applied lambdas, conditionals, lists, records, calls, parenthesised operators, do-blocks, via-lambdas, commented lists under lambdas, negations) nested 1..48 deep around a short and an over-long payload; (3d) every parameter-list shape (0-4 required / optional parameters in any order, with and without a rest parameter) called with 0-6 arguments directly, through spreads and by every higher-order form; (3f) the postfix operators (`!`, index, field) on every whole number 0..200 and on every pool value; (3g) numeral spellings at the edge of the literal grammar (11 numerals x 23 glue strings of signs / underscores / dots / exponent and radix markers x 5 tails) as a bound value, list item, lambda body and function input; (3h) recursion to just below the call-depth limit, and into it, with the recursive call nested 40 / 60 levels deep in its body (within the lexical bound of 64), in-process and through the release CLI; (3e) twenty-six nesting constructs (lambdas, calls, assignments, conditionals, lists, records, do-blocks, pipelines under one another) 1..64 levels deep, left unfinished and finished: the parser must accept or reject each within 5 000 000 rule calls (pest's call limit used as a deterministic step counter; the repaired grammar needs a few thousand); (3c) failing one-line programs of every length from a few bytes to 6 KB (error reports of every size); (3) token- and byte-level mutants of the repository's examples, benches and README code blocks; (4) random UTF-8 weighted to the grammar's alphabet, up to 4 KiB, bracket depth <= 64. Every stage runs on each: get_pairs, AST conversion with and without comments, evaluation of every statement, validate / serialise / stringify of every result and binding, Display of every error plus span-inside-own-source, format_expr at four widths, the WASM formatting driver, expr_to_source, and for 2% the real CLI (file, -i). Violation = panic, abort, signal, exit 101, or an error span outside its text. Non-trivial = the case reached evaluation or is an enumerated built-in call; distinct by input text.";
pub const ASSUMPTIONS: &[&str] = &[
    "resource exhaustion is not a crash: range spans in (2*10^6, 2^32], error-swallowing recursive sort_by callbacks and unbounded recursion through slow paths are excluded by construction or counted as inconclusive (allocation-failure marker, per-case watchdog)",
    "the WASM evaluate glue cannot run natively (JsValue); everything it calls in blots-core is covered, including the conversion of serde-deserialised inputs (2c)",
    "in-process crashes are caught with catch_unwind; aborts are attributed through the worker crash journal",
    "\"finishes\" is decided without a clock: the parser bounds its own work (a rule-call limit proportional to the text), so every parse returns; what is checked is that it does return, that unfinished designed texts are rejected and finished ones are not cut off by the limit; wall-clock time-outs stay inconclusive",
];

#[derive(Clone, Debug, Serialize, Deserialize)]
pub enum Case {
    /// built-in name applied to pool entries (source text of each argument)
    Builtin { name: String, args: Vec<String> },
    Program { text: String, inputs: String, cli: bool },
    /// texts evaluated one after the other in one session (REPL / wasm style): functions outlive
    /// the text they were written in and fail while being called from another one
    Session { chunks: Vec<String>, inputs: String },
    /// an inputs map in the serde form of SerializableValue - how the wasm driver receives its
    /// inputs (serde_wasm_bindgen) - converted with to_value and used by a program
    SerdeInputs { doc: String, text: String },
    /// unfinished (or finished) text of `depth` nested units: accepting or rejecting it must
    /// stay within a budget of parser rule calls (a deterministic step count, not a clock)
    ParseWork { unit: u8, depth: u8, closed: bool },
}

/// (opening text of one nesting level, text that closes one level)
pub const PARSE_UNITS: &[(&str, &str)] = &[
    ("x => g(a + ", ")"),
    ("g(x => ", ")"),
    ("x => g(a, ", ")"),
    ("t = g(", ")"),
    ("if a then b else g(", ")"),
    ("x => [g(", ")]"),
    ("x => {k: g(", ")}"),
    ("(x => g(", "))"),
    ("x => g(...", ")"),
    ("x => do { return g(", ") }"),
    ("[x => ", "]"),
    ("g(1)(x => ", ")"),
    ("a via x => g(", ")"),
    ("not x => g(", ")"),
    ("x => a[g(", ")]"),
    ("x => a ?? g(", ")"),
    // an operator between the enclosing term and the unfinished bracket
    ("x => a + do { return ", " }"),
    ("x => a + [", "]"),
    ("x => a + (", ")"),
    ("x => a + {k: ", "}"),
    ("t = a + [", "]"),
    ("if a then b else c + [", "]"),
    ("x => a and [", "]"),
    ("x => a ?? [", "]"),
    ("x => a * -[", "]"),
    ("x => a == [1, ", "]"),
];


pub struct Pipeline;

pub const POOL: &[&str] = &[
    "0/0", "inf", "-inf", "0", "-0", "9007199254740992", "999999999999999.9", "1e30", "-1e30", "1e15", "0.5", "-1.5", "7", "1", "2", "100", "-1",
    "\"\"", "\"abc\"", "\"é\"", "\"😀x\"", "\"12.5\"", "\"1e999\"", "\"meters\"", "\"c\"", "\"{} {}\"", "\",\"", "\"{\"", "\"{0} {1} {}\"", "\"{{}} }\"", "\"{:>5} {x}\"",
    "true", "false", "null",
    "[]", "[1, 2, 3]", "[3, 0/0, 1]", "[[1, 2], [3]]", "[\"b\", \"a\", \"é\"]", "[1e308, 1e308, -1e308]",
    "range(30) via (i => if i % 3 == 0 then i else if i % 3 == 1 then to_string(i) else [i])",
    "[1, \"a\", null, true, [1], {a: 1}, x => x, sum]",
    "{}", "{a: 1, b: \"x\"}", "{a: {b: [1]}, \"é\": null}",
    "x => x", "(a, b) => a + b", "(...r) => r", "x => x.nope.nope", "() => 1", "x => \"k\"", "x => x > 1", "(a, b) => a",
    "(a?, b) => b", "(...r, x) => x", "(a, ...r, b?) => [a, r, b]", "(a?, b?, c) => c",
    "sum", "map", "to_string",
];

const SMALL_POOL: &[&str] = &["0/0", "inf", "0", "0.5", "-1.5", "7", "\"\"", "\"é😀\"", "null", "[]", "[1, \"a\", 2.5]", "{a: 1}", "x => x", "sum"];

thread_local! {
    static POOL_SESS: std::cell::RefCell<Option<(Sess, usize)>> = const { std::cell::RefCell::new(None) };
}

fn pool_name(src: &str) -> Option<String> {
    POOL.iter().position(|p| *p == src).map(|i| format!("p{}", i))
}

fn with_pool_session<R>(f: impl FnOnce(&Sess) -> R) -> R {
    POOL_SESS.with(|cell| {
        let mut slot = cell.borrow_mut();
        let stale = slot.as_ref().map(|(_, n)| *n > 1500).unwrap_or(true);
        if stale {
            let s = Sess::new();
            s.set_inputs(&[]);
            for (i, src) in POOL.iter().enumerate() {
                let v = s.eval_src(src).unwrap_or_else(|e| panic!("harness: pool entry {} fails: {}", src, e));
                s.bind_value(&format!("p{}", i), v);
            }
            *slot = Some((s, 0));
        }
        let (s, n) = slot.as_mut().unwrap();
        *n += 1;
        f(s)
    })
}

/// every stage a user can invoke on a value
fn exercise_value(sess: &Sess, v: &Value) -> Outcome {
    let heap = sess.heap.borrow();
    let _ = validate_portable_value(v, &heap, &sess.env);
    if let Ok(sv) = SerializableValue::from_value(v, &heap) {
        let j = sv.to_json();
        let _ = serde_json::to_string(&j);
        // reload what was emitted (functions come back through the parser)
        let back = crate::blots::from_json(&j);
        drop(heap);
        let _ = back.to_value(&mut sess.heap.borrow_mut());
    } else {
        drop(heap);
    }
    let heap = sess.heap.borrow();
    let _ = v.stringify_internal(&heap);
    let _ = v.stringify_external(&heap);
    let _ = v.stringify_for_display(&heap);
    let _ = format!("{}", v);
    Ok(())
}

fn exercise_error(e: &blots_core::error::RuntimeError, what: &str) -> Outcome {
    let rendered = format!("{}", e);
    let info = EvalErr::from_runtime(e);
    if !info.span_on_char_boundaries {
        let stem: String = e.message.chars().filter(|c| !c.is_ascii_digit()).take(40).collect();
        fail!(
            format!("span-outside-source:{}", stem),
            "{}: error {:?} carries span {:?} but its own source has {:?} bytes (rendered: {:?})",
            what,
            e.message,
            info.span,
            info.source_len,
            rendered.chars().take(120).collect::<String>()
        );
    }
    Ok(())
}

fn bracket_depth(text: &str) -> usize {
    let (mut d, mut m) = (0usize, 0usize);
    for c in text.chars() {
        match c {
            '(' | '[' | '{' => {
                d += 1;
                m = m.max(d);
            }
            ')' | ']' | '}' => d = d.saturating_sub(1),
            _ => {}
        }
    }
    m
}

/// shapes that exhaust resources without being crashes (excluded by construction, counted):
/// `range(...)` whose argument text could denote a span in (2*10^6, 2^32], and sort_by with
/// nested lambdas (error-swallowing recursive comparators are exponential)
fn resource_shape(text: &str) -> bool {
    let cs: Vec<char> = text.chars().collect();
    let mut i = 0;
    while i + 5 <= cs.len() {
        if cs[i..i + 5].iter().collect::<String>() == "range" {
            let mut j = i + 5;
            while j < cs.len() && (cs[j] == ' ' || cs[j] == '\t') {
                j += 1;
            }
            if j < cs.len() && cs[j] == '(' {
                let mut depth = 0;
                let mut arg = String::new();
                while j < cs.len() {
                    if cs[j] == '(' {
                        depth += 1;
                    } else if cs[j] == ')' {
                        depth -= 1;
                        if depth == 0 {
                            break;
                        }
                    }
                    arg.push(cs[j]);
                    j += 1;
                }
                let mut run = 0;
                let mut big = false;
                let ac: Vec<char> = arg.chars().collect();
                for (k, c) in ac.iter().enumerate() {
                    if c.is_ascii_digit() {
                        run += 1;
                        if run >= 7 {
                            big = true;
                        }
                    } else {
                        if (*c == 'e' || *c == 'E') && k > 0 && ac[k - 1].is_ascii_digit() {
                            big = true;
                        }
                        if *c != '_' {
                            run = 0;
                        }
                    }
                }
                if big || arg.contains('^') || arg.contains('*') || arg.contains("0x") || arg.contains('!') {
                    return true;
                }
            }
            i += 5;
        } else {
            i += 1;
        }
    }
    text.contains("sort_by") && (text.matches("=>").count() > 6)
}

fn bind_inputs(sess: &Sess, inputs_json: &str) {
    let mut inputs_ok = false;
    if let Ok(v) = serde_json::from_str::<serde_json::Value>(inputs_json) {
        let mut map = indexmap::IndexMap::new();
        match &v {
            serde_json::Value::Object(obj) => {
                for (k, val) in obj {
                    let sv = crate::blots::from_json(val);
                    if let Ok(x) = sv.to_value(&mut sess.heap.borrow_mut()) {
                        map.insert(k.clone(), x);
                    }
                }
            }
            other => {
                let sv = crate::blots::from_json(other);
                if let Ok(x) = sv.to_value(&mut sess.heap.borrow_mut()) {
                    map.insert("value_1".to_string(), x);
                }
            }
        }
        let rec = sess.heap.borrow_mut().insert_record(map);
        sess.bind_value("inputs", rec);
        inputs_ok = true;
    }
    if !inputs_ok {
        sess.set_inputs(&[]);
    }
}

/// Each chunk is parsed and evaluated on its own (its own text is the source of its errors),
/// all in one session: heap and bindings are shared, as in the REPL and the wasm driver.
pub fn run_session(chunks: &[String], inputs_json: &str) -> Result<bool, crate::engine::Failure> {
    let sess = Sess::new();
    bind_inputs(&sess, inputs_json);
    let mut reached = false;
    for chunk in chunks {
        if get_pairs(chunk).is_err() {
            continue;
        }
        let Ok(stmts) = parse_program(chunk, false) else { continue };
        let rc: Rc<str> = chunk.as_str().into();
        for st in &stmts {
            let e = match &st.stmt {
                Stmt::Expr(e) | Stmt::Output(e) => e,
                Stmt::Comment(_) => continue,
            };
            reached = true;
            match sess.eval_ast(e, &rc) {
                Ok(v) => exercise_value(&sess, &v)?,
                Err(err) => exercise_error(&err, &format!("chunk {:?} of a session", chunk))?,
            }
        }
    }
    let bindings: Vec<(String, Value)> = sess.env.iter().collect();
    for (_, v) in &bindings {
        exercise_value(&sess, v)?;
    }
    Ok(reached)
}

pub fn run_pipeline(text: &str, inputs_json: &str, ctx: &mut Ctx) -> Result<bool, crate::engine::Failure> {
    // stage 1: parser (it bounds its own work: an input that would keep it busy for ever is
    // rejected with "call limit reached", which is a reported error like any other)
    let pairs = get_pairs(text);
    if let Err(e) = &pairs {
        let _ = format!("{}", e);
        let ok = match &e.location {
            pest::error::InputLocation::Pos(p) => *p <= text.len(),
            pest::error::InputLocation::Span((a, b)) => a <= b && *b <= text.len(),
        };
        if !ok {
            return Err(crate::engine::Failure::new("parse-error-location-outside-text", format!("{:?} for a text of {} bytes", e.location, text.len())));
        }
    }
    // tokens (syntax highlighting entry point)
    let _ = blots_core::parser::get_tokens(text);
    // inputs
    let sess = Sess::new();
    bind_inputs(&sess, inputs_json);
    if pairs.is_err() {
        return Ok(false);
    }
    // stage 2: AST conversion, both flavours
    let plain = parse_program(text, false);
    let commented = parse_program(text, true);
    // stage 5 (formatting) on the commented ASTs
    if let Ok(stmts) = &commented {
        for st in stmts {
            if let Some(e) = st.stmt.for_format() {
                for w in [Some(1usize), Some(20), None, Some(120)] {
                    let out = blots_core::formatter::format_expr(&e, w);
                    let _ = out.len();
                }
                let _ = blots_core::ast_to_source::expr_to_source(&e);
            }
        }
        if !stmts.is_empty() {
            for w in [Some(10usize), None] {
                let _ = crate::blots::wasm_format(text, w);
            }
        }
    }
    let Ok(stmts) = plain else { return Ok(false) };
    // stage 3 + 4: evaluate every statement (continue after failures), exercise results
    let rc: Rc<str> = text.into();
    let mut reached = false;
    for st in &stmts {
        let e = match &st.stmt {
            Stmt::Expr(e) | Stmt::Output(e) => e,
            Stmt::Comment(_) => continue,
        };
        reached = true;
        match sess.eval_ast(e, &rc) {
            Ok(v) => exercise_value(&sess, &v)?,
            Err(err) => exercise_error(&err, "statement")?,
        }
    }
    let bindings: Vec<(String, Value)> = sess.env.iter().collect();
    for (_, v) in &bindings {
        exercise_value(&sess, v)?;
    }
    let _ = ctx;
    Ok(reached)
}

impl Check for Pipeline {
    type Case = Case;
    fn name(&self) -> &'static str {
        "pipeline"
    }
    fn journal(&self) -> bool {
        true
    }
    fn run(&self, c: &Case, ctx: &mut Ctx) -> Outcome {
        match c {
            Case::Builtin { name, args } => {
                ctx.label("built-in-call");
                ctx.nontrivial(hash_str(&format!("{}{:?}", name, args)));
                // resource exclusions: range over huge finite spans is an allocation, not a crash
                if name == "range" && args.iter().any(|a| ["1e15", "9007199254740992", "100"].contains(&a.as_str())) && !args.iter().any(|a| a.contains("1e30")) {
                    // range(1e15) etc. report the length error quickly; nothing to exclude
                }
                with_pool_session(|sess| {
                    let mut names = Vec::new();
                    for (i, a) in args.iter().enumerate() {
                        match pool_name(a) {
                            Some(n) => names.push(n),
                            None => {
                                let v = sess.eval_src(a).map_err(|e| crate::engine::Failure::new("harness:bad-pool-entry", e))?;
                                let n = format!("tmp{}", i);
                                // fresh temp names would collide across cases: shadow through a do-block instead
                                let _ = v;
                                names.push(format!("({})", a));
                                let _ = n;
                            }
                        }
                    }
                    let src = format!("{}({})", name, names.join(", "));
                    let e = crate::blots::parse_expr(&src).map_err(|e| crate::engine::Failure::new("harness:call-unparseable", format!("{}: {}", src, e)))?;
                    let rc: Rc<str> = src.as_str().into();
                    match sess.eval_ast(&e, &rc) {
                        Ok(v) => exercise_value(sess, &v),
                        Err(err) => exercise_error(&err, &src),
                    }
                })
            }
            Case::ParseWork { unit, depth, closed } => {
                let (open, close) = PARSE_UNITS[*unit as usize % PARSE_UNITS.len()];
                let mut text = String::from("f = ");
                for _ in 0..*depth {
                    text.push_str(open);
                }
                text.push('1');
                if *closed {
                    for _ in 0..*depth {
                        text.push_str(close);
                    }
                }
                ctx.label(if *closed { "parse-work:finished-text" } else { "parse-work:unfinished-text" });
                ctx.nontrivial(hash_str(&text));
                // the parser must come back - with the tree, or with an error (also "call limit
                // reached": it bounds its own work) - and a finished text of this size must parse
                let verdict = blots_core::parser::get_pairs(&text).map(|_| ()).map_err(|e| e.to_string());
                if matches!(&verdict, Err(e) if e.contains("call limit reached")) {
                    ctx.label("parse-work:rejected-by-the-work-limit");
                }
                match (&verdict, *closed) {
                    (Err(e), true) if e.contains("call limit reached") => fail!(
                        format!("parse-work:finished-text-hits-the-work-limit:{}", open.trim()),
                        "a finished, well-formed text of {} bytes ({} levels of `{}`) is rejected by the parser's work limit:\n{}",
                        text.len(),
                        depth,
                        open,
                        text.chars().take(300).collect::<String>()
                    ),
                    (Ok(()), false) => fail!(format!("parse-work:unfinished-text-accepted:{}", open.trim()), "an unfinished text parses: {}", text.chars().take(200).collect::<String>()),
                    _ => Ok(()),
                }
            }
            Case::SerdeInputs { doc, text } => {
                ctx.label("serde-inputs");
                ctx.nontrivial(hash_str(&format!("{}{}", doc, text)));
                let Ok(map) = serde_json::from_str::<indexmap::IndexMap<String, SerializableValue>>(doc) else {
                    ctx.label("serde-inputs:rejected-by-serde");
                    return Ok(());
                };
                let sess = Sess::new();
                let mut rec = indexmap::IndexMap::new();
                for (k, sv) in &map {
                    // what blots-wasm's evaluate does with each input
                    if let Ok(v) = sv.to_value(&mut sess.heap.borrow_mut()) {
                        rec.insert(k.clone(), v);
                    }
                }
                let r = sess.heap.borrow_mut().insert_record(rec);
                sess.bind_value("inputs", r);
                if let Ok(stmts) = parse_program(text, false) {
                    let rc: Rc<str> = text.as_str().into();
                    for st in &stmts {
                        if let Stmt::Expr(e) | Stmt::Output(e) = &st.stmt {
                            match sess.eval_ast(e, &rc) {
                                Ok(v) => exercise_value(&sess, &v)?,
                                Err(err) => exercise_error(&err, "statement over serde inputs")?,
                            }
                        }
                    }
                }
                Ok(())
            }
            Case::Session { chunks, inputs } => {
                let all = chunks.join("\n");
                if bracket_depth(&all) > 64 || resource_shape(&all) {
                    ctx.discard();
                    return Ok(());
                }
                let reached = run_session(chunks, inputs)?;
                ctx.label(if reached { "session:reached-evaluation" } else { "session:nothing-evaluated" });
                if reached {
                    ctx.nontrivial(hash_str(&format!("{:?}{}", chunks, inputs)));
                }
                Ok(())
            }
            Case::Program { text, inputs, cli } => {
                if bracket_depth(text) > 64 {
                    ctx.discard();
                    return Ok(());
                }
                if resource_shape(text) {
                    ctx.label("excluded:resource-shape");
                    return Ok(());
                }
                let reached = run_pipeline(text, inputs, ctx)?;
                ctx.label(if reached { "reached-evaluation" } else { "rejected-before-evaluation" });
                if reached {
                    ctx.nontrivial(hash_str(text));
                }
                if *cli {
                    ctx.label("cli");
                    let dir = crate::engine::proc::scratch_dir("c01");
                    let p = format!("{}/p.blots", dir);
                    std::fs::write(&p, text).unwrap();
                    let lim = Limits { mem_bytes: 4 << 30, stack_bytes: 8 << 20, timeout: std::time::Duration::from_secs(20) };
                    let mut runs = vec![run_proc(&ctx.cli_path, &["-i".into(), inputs.clone(), p.clone()], None, None, &lim)];
                    runs.push(run_proc(&ctx.cli_path, &["--format".into(), p.clone(), format!("{}/out.blots", dir)], None, None, &lim));
                    let _ = std::fs::remove_dir_all(&dir);
                    for r in runs.into_iter().flatten() {
                        if r.timed_out {
                            continue;
                        }
                        if r.signal.is_some() || r.code == Some(101) {
                            let first = r.stderr.lines().find(|l| l.contains("panicked")).unwrap_or("").to_string();
                            fail!(
                                format!("cli-crash:{}:{}", r.describe(), crate::engine::normalise_panic(&first)),
                                "the release CLI crashed ({}) on this program with inputs {}: {}\n--- program:\n{}",
                                r.describe(),
                                inputs,
                                r.stderr.chars().take(400).collect::<String>(),
                                text
                            );
                        }
                    }
                }
                Ok(())
            }
        }
    }
}

// ---- generators --------------------------------------------------------------------------------

const FN_SOURCES: &[&str] = &[
    "x => x + 1", "(a, b?) => [a, b]", "(...r) => len(r)", "", " ", "\n", "// only a comment", "x =>", "=> 1", "x => x via", "1 + 2", "x => y => x + y", "sum",
    "nope", "x => x +", "(x) => (", "x => \"unterminated", "x => do { return x }", "x => do {\n  t = x\n  return t\n}", "\u{feff}x => x", "x => x.a.b.c", "x => 1 / 0", "x => [x][5]()",
    "// note\nx => x", "x => x\ny => y",
];

fn inputs_json(t: &mut Tape) -> String {
    match t.pick(8) {
        0 => "{}".into(),
        1 => "{\"n\": 4, \"s\": \"é\", \"l\": [1, null, {\"k\": true}]}".into(),
        2 | 3 | 4 => {
            let src = FN_SOURCES[t.pick(FN_SOURCES.len())];
            format!("{{\"n\": 2, \"f\": {{\"__blots_function\": {}}}}}", crate::model::json::write_string(src, false))
        }
        5 => "[1, 2]".into(),
        6 => "{\"__blots_function\": \"x => x\"}".into(),
        _ => "{\"f\": {\"__blots_function\": 5}, \"g\": {\"__blots_function\": \"max\", \"extra\": 1}}".into(),
    }
}

const NOISE: &[&str] = &[
    "((a?, b) => b)(1)", "((...r, x) => x)(1)", "((a, ...r, b?) => b)(1)", "((a?, b) => b)()", "[1] via ((i?, x) => x)",
    "\"str\"", "null", "[]", "{}", "inputs.f", "#f", "inputs.f(2)", "#f(1, 2, 3)", "(x => x.q)(1)", "1 / 0", "0 / 0", "-inf", "[1, \"a\"]", "nope_undefined", "{a: 1}.a.b",
    "median([0/0, 1])", "percentile([], 50)", "chunk([1], 0.5)", "slice(\"héllo\", 1, 2)", "range(-1e30, 1e30)", "sort(range(25) via (i => if i % 2 == 0 then i else \"s\"))",
    "(() => zz = n1 + 1)()", "[1] via (q => (() => ww = q)())", "{go: () => (cc = l1)}.go()", "(() => do {\n  return n1\n})()",
    "(10 ^ 12)!", "18446744073709551616!", "round(1.5, 1e30)", "format(\"{} {} {}\", 1)", "split(\"\", \"\")", "to_number(\"1e999\")", "convert(1, \"c\", \"C\")", "head(\"\")", "tail(\"é\")",
];


/// Functions whose failure lies far into a long text (with non-ASCII text before it), for
/// sessions in which the caller's text is short.
const LONG_FAILING_FNS: &[&str] = &[
    "x => [x, x, x, x, x, x, x, x, x, x] via (y => y + 1) into (l => l[0] + undefined_name_at_the_end)",
    "(a, b?) => do {\n  // ééééééééééééééééééééééééééééééééééééééé\n  t = a + 1\n  return t.nope.nope\n}",
    "x => \"ééééééééééééééééééééééééééééééééééééééééé\" + x + nope_at_the_end",
    "x =>                                                                          [1, 2][5 + x]",
    "x => if x > 100 then 0 else ([1, 2, 3] via (v => v * 2) where (v => v > 2) into (l => l[0])) + x.field",
    "(...r) => \"日本語日本語日本語日本語日本語日本語日本語日本語\" + (r via (v => v via v))",
    "x => do {\n  a = x + 1\n  b = a * 2\n  c = [a, b]\n  return c[7]\n}",
    "x => convert(x, \"ééééééééééééééééééééééééééééééééééé\", \"meters\")",
];

const SHORT_CALLS: &[&str] = &["F(1)", "[1] via F", "map([1], F)", "1 into F", "[1, 2] where F", "F(1) + 1", "F()", "[[1]] via (q => q via F)", "r = F(2)", "sort_by([2, 1], F)", "reduce([1, 2], F, 0)", "F"];

fn session_case(tape: &[u16]) -> Case {
    let mut t = Tape::new(tape);
    let mut chunks: Vec<String> = Vec::new();
    let mut fns: Vec<String> = Vec::new();
    // functions arriving as JSON inputs (their text is the emitted source, not the program)
    let mut inputs = String::from("{\"n\": 2");
    for i in 0..t.pick(3) {
        let src = if t.chance(2, 3) { LONG_FAILING_FNS[t.pick(LONG_FAILING_FNS.len())] } else { FN_SOURCES[t.pick(FN_SOURCES.len())] };
        inputs.push_str(&format!(", \"f{}\": {{\"__blots_function\": {}}}", i, crate::model::json::write_string(src, false)));
        fns.push(format!("#f{}", i));
        fns.push(format!("inputs.f{}", i));
    }
    inputs.push('}');
    if t.chance(1, 2) {
        chunks.push(typed::PRELUDE.to_string());
    }
    let n = 2 + t.pick(7);
    for i in 0..n {
        match t.pick(6) {
            0 | 1 => {
                let name = format!("g{}", i);
                chunks.push(format!("{} = {}", name, LONG_FAILING_FNS[t.pick(LONG_FAILING_FNS.len())]));
                fns.push(name);
            }
            2 => {
                // a generated statement as its own chunk
                let (prog, _) = typed::program(&mut t, 1, 3, true);
                let mode = if t.pick(2) == 0 { Mode::Minimal } else { Mode::Full };
                for st in &prog {
                    chunks.push(Printer::new(mode, Tape::empty()).statement(st));
                }
            }
            3 => chunks.push(NOISE[t.pick(NOISE.len())].to_string()),
            _ if !fns.is_empty() => {
                let f = fns[t.pick(fns.len())].clone();
                chunks.push(SHORT_CALLS[t.pick(SHORT_CALLS.len())].replace('F', &f));
            }
            _ => chunks.push("1".into()),
        }
    }
    Case::Session { chunks, inputs }
}


/// inputs in SerializableValue's serde form with function bodies of every kind
fn serde_inputs_case(tape: &[u16]) -> Case {
    let mut t = Tape::new(tape);
    let js = |x: &str| crate::model::json::write_string(x, false);
    let mut entries: Vec<String> = Vec::new();
    for i in 0..(1 + t.pick(3)) {
        let body = match t.pick(4) {
            0 => FN_SOURCES[t.pick(FN_SOURCES.len())].to_string(),
            1 => ["", " ", "\n", "// c", "output x = 1", "x = 1", "1 +", "(", "a\nb", "\u{feff}", "x => x", "x + 1 // c", "// c\nx", "x // c\n// d", "x + 1 // c\ny", "[x, // c\n 1]", "x\n// c"][t.pick(17)].to_string(),
            2 => LONG_FAILING_FNS[t.pick(LONG_FAILING_FNS.len())].to_string(),
            _ => ["x + 1", "a + nope", "[x, x] via (q => q)", "do {\n  return x\n}", "x.k"][t.pick(5)].to_string(),
        };
        let args = ["[]", "[{\"Required\":\"x\"}]", "[{\"Required\":\"x\"},{\"Optional\":\"y\"}]", "[{\"Rest\":\"r\"}]", "[{\"Optional\":\"a\"},{\"Required\":\"b\"}]"][t.pick(5)];
        let name = ["null", "\"f\"", "\"\""][t.pick(3)];
        let scope = ["null", "{}", "{\"a\":{\"Number\":2.0}}", "{\"a\":{\"Lambda\":{\"name\":null,\"args\":[],\"body\":\"\",\"scope\":null}}}"][t.pick(4)];
        let v = match t.pick(6) {
            0 => "{\"Number\":1.5}".to_string(),
            1 => format!("{{\"BuiltIn\":{}}}", js(["sum", "nope", "", "map"][t.pick(4)])),
            2 => format!("{{\"List\":[{{\"Lambda\":{{\"name\":{},\"args\":{},\"body\":{},\"scope\":{}}}}}]}}", name, args, js(&body), scope),
            _ => format!("{{\"Lambda\":{{\"name\":{},\"args\":{},\"body\":{},\"scope\":{}}}}}", name, args, js(&body), scope),
        };
        entries.push(format!("\"f{}\":{}", i, v));
    }
    let calls = ["inputs.f0(1)", "#f0", "[1, 2] via #f0", "inputs.f1(1, 2)", "typeof(inputs.f0)", "to_string(inputs)", "output o = inputs.f0", "map([1], inputs.f0)", "inputs.f0[0](3)"];
    let text = (0..(1 + t.pick(3))).map(|_| calls[t.pick(calls.len())]).collect::<Vec<_>>().join("\n");
    Case::SerdeInputs { doc: format!("{{{}}}", entries.join(",")), text }
}

fn generated_program(tape: &[u16]) -> Case {
    let mut t = Tape::new(tape);
    let inputs = inputs_json(&mut t);
    let (prog, _) = typed::program(&mut t, 6, 4, true);
    let mut lines: Vec<String> = typed::PRELUDE.lines().map(|s| s.to_string()).collect();
    let mode = if t.pick(2) == 0 { Mode::Minimal } else { Mode::Full };
    for st in &prog {
        let mut txt = Printer::new(mode, Tape::empty()).statement(st);
        // ill-typed noise: replace a token by something of another type
        if t.chance(1, 4) {
            let noise = NOISE[t.pick(NOISE.len())];
            let toks: Vec<&str> = txt.split(' ').collect();
            if toks.len() > 2 {
                let k = 2 + t.pick(toks.len() - 2);
                let mut v: Vec<String> = toks.iter().map(|s| s.to_string()).collect();
                v[k] = noise.to_string();
                txt = v.join(" ");
            }
        }
        lines.push(txt);
        if t.chance(1, 6) {
            lines.push(format!("w{} = {}", lines.len(), NOISE[t.pick(NOISE.len())]));
        }
    }
    // recursion that terminates or hits the depth limit, bodies of nesting 1
    if t.chance(1, 8) {
        lines.push(["rec = n => if n <= 0 then 0 else 1 + rec(n - 1)\nrec(50)", "loop = n => loop(n + 1)\nloop(0)", "ev = n => if n == 0 then true else od(n - 1)\nod = n => if n == 0 then false else ev(n - 1)\nev(9)"][t.pick(3)].into());
    }
    let cli = t.chance(1, 50);
    Case::Program { text: lines.join("\n"), inputs, cli }
}

fn corpus_texts() -> Vec<String> {
    let mut out = Vec::new();
    for dir in ["/repo/examples", "/repo/benches", "/repo/website"] {
        collect_blots(std::path::Path::new(dir), &mut out, 0);
    }
    // README code blocks
    for readme in ["/repo/README.md", "/repo/blots/README.md"] {
        if let Ok(s) = std::fs::read_to_string(readme) {
            let mut cur = String::new();
            let mut inside = false;
            for line in s.lines() {
                if line.trim_start().starts_with("```") {
                    if inside && !cur.trim().is_empty() {
                        out.push(cur.clone());
                    }
                    cur.clear();
                    inside = !inside;
                } else if inside {
                    cur.push_str(line);
                    cur.push('\n');
                }
            }
        }
    }
    // benchmarks (wall-clock timing, half-million-element lists) are stress tests, not corpus
    out.retain(|t| t.len() < 6000 && !t.contains("time_now") && !t.contains("00000"));
    out.sort();
    out.dedup();
    out
}

fn collect_blots(dir: &std::path::Path, out: &mut Vec<String>, depth: usize) {
    if depth > 4 {
        return;
    }
    let Ok(rd) = std::fs::read_dir(dir) else { return };
    let mut entries: Vec<_> = rd.flatten().map(|e| e.path()).collect();
    entries.sort();
    for p in entries {
        if p.is_dir() {
            if p.file_name().map(|n| n == "node_modules" || n == "target" || n == ".git").unwrap_or(false) {
                continue;
            }
            collect_blots(&p, out, depth + 1);
        } else if p.extension().map(|e| e == "blots").unwrap_or(false) {
            if let Ok(s) = std::fs::read_to_string(&p) {
                out.push(s);
            }
        }
    }
}

const DICT: &[&str] = &[
    " ", "\n", "(", ")", "[", "]", "{", "}", ",", ":", "=", "=>", "...", "#", ".", "+", "-", "*", "/", "%", "^", "==", "!=", "<", "<=", ">", ">=", ".==", ".<", "&&", "||", "??", "!", " and ", " or ", " not ", " via ",
    " into ", " where ", "if ", " then ", " else ", "do {", "return ", "output ", "//", "\"", "'", "true", "false", "null", "inf", "inputs", "constants", "0", "1", "2.5", "1e3", "0x1F", "0b101", "_", "x", "y",
    "sum", "map", "range", "sort_by", "format", "é", "😀", "\t", "\r\n", ";", "?", "\\",
];

fn tokenize(text: &str) -> Vec<String> {
    let mut toks = Vec::new();
    let mut cur = String::new();
    let mut kind = 0u8;
    for c in text.chars() {
        let k = if c.is_alphanumeric() || c == '_' { 1 } else if c.is_whitespace() { 2 } else { 3 };
        if k != kind || k == 3 {
            if !cur.is_empty() {
                toks.push(std::mem::take(&mut cur));
            }
            kind = k;
        }
        cur.push(c);
    }
    if !cur.is_empty() {
        toks.push(cur);
    }
    toks
}

fn mutant(base: &str, other: &str, tape: &[u16]) -> Case {
    let mut t = Tape::new(tape);
    let inputs = inputs_json(&mut t);
    let mut toks = tokenize(base);
    let n_mut = 1 + t.pick(4);
    for _ in 0..n_mut {
        if toks.is_empty() {
            break;
        }
        let i = t.pick(toks.len());
        match t.pick(7) {
            0 => {
                toks.remove(i);
            }
            1 => {
                let x = toks[i].clone();
                toks.insert(i, x);
            }
            2 => {
                let j = t.pick(toks.len());
                toks.swap(i, j);
            }
            3 => {
                let o = tokenize(other);
                if !o.is_empty() {
                    let a = t.pick(o.len());
                    let len = 1 + t.pick(8.min(o.len() - a));
                    for (k, tok) in o[a..a + len].iter().enumerate() {
                        toks.insert((i + k).min(toks.len()), tok.clone());
                    }
                }
            }
            4 | 5 => toks.insert(i, DICT[t.pick(DICT.len())].to_string()),
            _ => toks[i] = DICT[t.pick(DICT.len())].to_string(),
        }
    }
    let mut text: String = toks.concat();
    if t.chance(1, 5) {
        // byte-level: drop or duplicate a character
        let cs: Vec<char> = text.chars().collect();
        if !cs.is_empty() {
            let i = t.pick(cs.len());
            text = cs.iter().enumerate().flat_map(|(k, c)| if k == i { if tape.len() % 2 == 0 { vec![] } else { vec![*c, *c] } } else { vec![*c] }).collect();
        }
    }
    Case::Program { text, inputs, cli: t.chance(1, 50) }
}


/// One construct nested `depth` times (the statement bounds nesting at 64) around a payload that
/// is short or too long for one line: every stage must finish on such inputs, too.
fn deep_nesting(kind: usize, depth: usize, long: bool, call_it: bool) -> Case {
    let payload = if long { (0..12).map(|i| format!("aaaaaaaa{}", i)).collect::<Vec<_>>().join(" + ") } else { "a0 + 1".to_string() };
    let d = depth;
    let rep = |f: &dyn Fn(usize) -> String| (0..d).map(f).collect::<String>();
    let body = match kind {
        0 => format!("{}{}", rep(&|i| format!("a{} => ", i)), payload),
        1 => format!("{}{}{}", rep(&|i| format!("(a{} => ", i)), payload, rep(&|i| format!(")({})", i))),
        2 => format!("{}{}", rep(&|i| format!("if c{} then {} else ", i, i)), payload),
        3 => format!("{}{}{}", "[".repeat(d), payload, "]".repeat(d)),
        4 => format!("{}{}{}", rep(&|i| format!("{{k{}: ", i)), payload, "}".repeat(d)),
        5 => format!("{}{}{}", rep(&|i| format!("f{}(", i)), payload, ")".repeat(d)),
        6 => format!("{}{}{}", "1 + (".repeat(d), payload, ")".repeat(d)),
        7 => format!("{}{}{}", "do {\n return ".repeat(d), payload, "\n}".repeat(d)),
        8 => format!("{}{}{}", rep(&|i| format!("l{} via (a{} => ", i, i)), payload, ")".repeat(d)),
        9 => format!("{}{}{}", rep(&|i| format!("(a{}, b{}?) => [a{}, // c{}\n", i, i, i, i)), payload, "]".repeat(d)),
        10 => format!("{}do {{\n  t = 1\n  return {}\n}}", rep(&|i| format!("a{} => ", i)), payload),
        // conditionals nested in the condition position
        12 => format!("{}c0 > 0{}", "if ".repeat(d), rep(&|i| format!(" then {} < a{} else {}", payload, i, i))),
        13 => format!("{}c0{}", rep(&|i| format!("f{}(if ", i)), rep(&|i| format!(" then {} else a{})", payload, i))),
        _ => format!("{}{}{}", "-(".repeat(d), payload, ")".repeat(d)),
    };
    let text = if call_it { format!("a0 = 1\nx = {}\nx", body) } else { format!("x = {}", body) };
    Case::Program { text, inputs: "{}".into(), cli: false }
}

fn raw_text(tape: &[u16]) -> Case {
    let mut t = Tape::new(tape);
    let inputs = inputs_json(&mut t);
    let n = t.pick(400);
    let mut s = String::new();
    for _ in 0..n {
        if t.chance(1, 10) {
            let v = t.raw() as u32 * 17 % 0x11_0000;
            s.push(char::from_u32(v).unwrap_or('\u{fffd}'));
        } else {
            s.push_str(DICT[t.pick(DICT.len())]);
        }
    }
    Case::Program { text: s, inputs, cli: t.chance(1, 100) }
}

pub fn run(ctx: &mut Ctx) {
    // (1) built-ins x boundary pool
    let names: Vec<&'static str> = blots_core::functions::get_built_in_function_idents().into_iter().filter(|n| *n != "print" && *n != "time_now").collect();
    let mut cases: Vec<Case> = Vec::new();
    for name in &names {
        cases.push(Case::Builtin { name: name.to_string(), args: vec![] });
        for a in POOL {
            cases.push(Case::Builtin { name: name.to_string(), args: vec![a.to_string()] });
            for b in POOL {
                cases.push(Case::Builtin { name: name.to_string(), args: vec![a.to_string(), b.to_string()] });
            }
        }
        for a in SMALL_POOL {
            for b in SMALL_POOL {
                for c in SMALL_POOL {
                    cases.push(Case::Builtin { name: name.to_string(), args: vec![a.to_string(), b.to_string(), c.to_string()] });
                }
            }
        }
    }
    ctx.run_enum(&Pipeline, cases.into_iter(), true);
    let names2: Vec<String> = names.iter().map(|s| s.to_string()).collect();
    let tuples = (any::<u16>(), prop::collection::vec(any::<u16>(), 3..6)).prop_map(move |(f, idx)| Case::Builtin {
        name: names2[pick_idx(f, names2.len())].clone(),
        args: idx.iter().map(|i| POOL[pick_idx(*i, POOL.len())].to_string()).collect(),
    });
    ctx.run_random(&Pipeline, tuples, ctx.tier.pick(40_000, 1_000_000));
    // (2) generated programs
    ctx.run_random(&Pipeline, prop::collection::vec(any::<u16>(), 0..400).prop_map(|t| generated_program(&t)), ctx.tier.pick(30_000, 600_000));
    // (2b) sessions: texts evaluated one after the other, functions called from another text
    ctx.run_random(&Pipeline, prop::collection::vec(any::<u16>(), 0..200).prop_map(|t| session_case(&t)), ctx.tier.pick(30_000, 600_000));
    // (2c) inputs in the serde form the wasm driver receives
    ctx.run_random(&Pipeline, prop::collection::vec(any::<u16>(), 0..60).prop_map(|t| serde_inputs_case(&t)), ctx.tier.pick(20_000, 300_000));
    // (3) corpus replay and mutation
    let corpus = corpus_texts();
    ctx.note(format!("corpus: {} texts from examples / benches / README", corpus.len()));
    if !corpus.is_empty() {
        ctx.run_enum(&Pipeline, corpus.clone().into_iter().map(|text| Case::Program { text, inputs: "{\"n\": 3}".into(), cli: true }), false);
        let c2 = corpus.clone();
        let n = corpus.len();
        ctx.run_random(
            &Pipeline,
            (any::<u16>(), any::<u16>(), prop::collection::vec(any::<u16>(), 4..40)).prop_map(move |(i, j, t)| mutant(&c2[pick_idx(i, n)], &c2[pick_idx(j, n)], &t)),
            ctx.tier.pick(20_000, 400_000),
        );
    }
    // (3b) one construct nested 1..48 deep (bracket-like kinds up to the 64 bound are covered by (4))
    let mut deep = Vec::new();
    for kind in 0..14usize {
        for depth in [1usize, 2, 3, 5, 8, 12, 16, 20, 24, 32, 40, 48] {
            for long in [false, true] {
                deep.push(deep_nesting(kind, depth, long, depth % 2 == 0));
            }
        }
    }
    ctx.run_enum(&Pipeline, deep.into_iter(), false);
    // (3c) located errors on one long line: every line length from a few bytes to ~6 KB, ASCII and not
    let mut long_lines = Vec::new();
    for n in 1..=1500usize {
        let ones = vec!["1"; n].join(", ");
        long_lines.push(Case::Program { text: format!("[{}] < \"a\"", ones), inputs: "{}".into(), cli: false });
        if n % 3 == 0 {
            long_lines.push(Case::Program { text: format!("sum({}, \"x\")", ones), inputs: "{}".into(), cli: false });
            long_lines.push(Case::Program { text: format!("x = \"{}\" + nope_undefined", "é".repeat(n)), inputs: "{}".into(), cli: n % 300 == 0 });
        }
    }
    ctx.run_enum(&Pipeline, long_lines.into_iter(), false);
    // (3d) every parameter-list shape (0-4 required / optional parameters in any order, with
    // and without a rest parameter) x 0-6 arguments, passed directly, through a spread, and by
    // each higher-order form
    let mut arity = Vec::new();
    for n in 0..=4usize {
        for mask in 0..(1usize << n) {
            for rest in [false, true] {
                let mut params: Vec<String> = (0..n).map(|i| if mask >> i & 1 == 1 { format!("p{}?", i) } else { format!("p{}", i) }).collect();
                let mut reads: Vec<String> = (0..n).map(|i| format!("p{}", i)).collect();
                if rest {
                    params.push("...r".into());
                    reads.push("r".into());
                }
                let def = format!("f = ({}) => [{}]", params.join(", "), reads.join(", "));
                let mut calls: Vec<String> = Vec::new();
                for k in 0..=6usize {
                    let args: Vec<String> = (1..=k).map(|i| i.to_string()).collect();
                    calls.push(format!("f({})", args.join(", ")));
                    calls.push(format!("f(...[{}])", args.join(", ")));
                    if k >= 1 {
                        calls.push(format!("f({}, ...[])", args.join(", ")));
                    }
                }
                for c in ["[10, 20] via f", "map([10, 20], f)", "[10] where f", "filter([10, 20], f)", "reduce([1, 2], f, 0)", "sort_by([2, 1], f)", "5 into f", "every([1], f)", "some([1], f)", "count_by([1, 2], f)", "[[1, 2], [3]] via f", "arity(f)", "to_string(f)", "output f"] {
                    calls.push(c.to_string());
                }
                for c in calls {
                    arity.push(Case::Program { text: format!("{}\n{}", def, c), inputs: "{}".into(), cli: false });
                }
            }
        }
    }
    ctx.run_enum(&Pipeline, arity.into_iter(), false);
    // (3f) postfix operators on every small whole number and on the pool (no built-in call involved)
    let mut post = Vec::new();
    for n in 0..=200u32 {
        post.push(Case::Program { text: format!("x = {}!\ny = [{}, {}] via (q => q!)\nz = -{}!", n, n, n + 1, n), inputs: "{}".into(), cli: n % 50 == 21 });
    }
    for v in POOL {
        post.push(Case::Program { text: format!("v = {}\na = v!\n", v), inputs: "{}".into(), cli: false });
        post.push(Case::Program { text: format!("v = {}\nb = v[0]\nc = v.a\nd = v[-1]\ne = v[0.5]", v), inputs: "{}".into(), cli: false });
    }
    ctx.run_enum(&Pipeline, post.into_iter(), false);
    // (3g) numeral spellings at the edge of the literal grammar (signs, underscores, dots and exponent
    // markers in every neighbouring position): whatever the grammar makes of them, every stage returns
    let mut numerals = Vec::new();
    let pieces = ["1", "0", "10_000", "7", ".5", "1.5", "1e3", "2E-3", "0x1F", "0b101", "9007199254740993"];
    let glue = ["_", "__", "_-", "_+", "-", "+", ".", "..", "e", "e-", "e+", "E_", "_.", "._", "_e", "e_", "x", "b", "_x", "-_", "+_", "e.", ".e"];
    for a in pieces {
        for g in glue {
            for b in ["2", "5", "1.5e3", "_", ""] {
                let lit = format!("{}{}{}", a, g, b);
                numerals.push(Case::Program { text: format!("v = {}\nw = [{}, -{}] via (q => q * 3_000)\nf = x => x * {}", lit, lit, lit, lit), inputs: format!("{{\"f\": {{\"__blots_function\": \"x => x * {}\"}}}}", lit), cli: (a.len() + g.len() + b.len()) % 7 == 0 });
            }
        }
    }
    ctx.run_enum(&Pipeline, numerals.into_iter(), false);
    // (3h) recursion that stops just below the call-depth limit (and one that runs into it) with the
    // recursive call nested 40 / 60 levels deep in its body - within the lexical bound of 64 -
    // through the release CLI as well: the native stack must hold out
    let mut deep = Vec::new();
    for nesting in [40usize, 60] {
        for kind in 0..2 {
            let mut body = String::from("f(n - 1)");
            for _ in 0..nesting {
                body = if kind == 0 { format!("(1 + {})", body) } else { format!("[{}][0]", body) };
            }
            for start in [995u32, 5000] {
                deep.push(Case::Program { text: format!("f = n => if n == 0 then 0 else {}\noutput r = f({})\n", body, start), inputs: "{}".into(), cli: true });
            }
        }
    }
    ctx.run_enum(&Pipeline, deep.into_iter(), false);
    // (3e) nested constructs left unfinished: the work to reject them must not explode with depth
    let mut work = Vec::new();
    for unit in 0..PARSE_UNITS.len() as u8 {
        for depth in [1u8, 2, 8, 16, 24, 32, 48, 64] {
            work.push(Case::ParseWork { unit, depth, closed: false });
            work.push(Case::ParseWork { unit, depth, closed: true });
        }
    }
    ctx.run_enum(&Pipeline, work.into_iter(), false);
    // (4) raw random text
    ctx.run_random(&Pipeline, prop::collection::vec(any::<u16>(), 0..900).prop_map(|t| raw_text(&t)), ctx.tier.pick(20_000, 400_000));
}

/// entry point of the libFuzzer `pipeline` target: the C01 oracle on one (text, inputs) pair
pub fn fuzz_one(text: &str, inputs: &str) -> Outcome {
    if text.len() > 4096 || bracket_depth(text) > 64 || resource_shape(text) {
        return Ok(());
    }
    // unbounded recursion and huge allocations are resource questions, not crashes
    if text.contains("range") && text.chars().filter(|c| c.is_ascii_digit()).count() > 12 {
        return Ok(());
    }
    static KNOWN: std::sync::OnceLock<crate::engine::KnownFile> = std::sync::OnceLock::new();
    let known = KNOWN.get_or_init(|| crate::engine::load_known(concat!(env!("CARGO_MANIFEST_DIR"), "/../known_findings.json")));
    let mut ctx = Ctx::new("C01", crate::engine::Tier::Quick, 1, 0, 1, 0, 1.0, crate::engine::Mode::Search, known, None, None);
    run_pipeline(text, inputs, &mut ctx).map(|_| ())
}
