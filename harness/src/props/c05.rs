//! C05 — function outputs are portable: emitted source reloads to an equivalent function.

use crate::blots::{Obs, Sess};
use crate::engine::proc::{Limits, run as run_proc};
use crate::engine::{Check, Ctx, Outcome, hash_str};
use crate::fail;
use crate::gen_::expr::{self, E, Mode, P, Printer, Tape};
use crate::gen_::typed::{self, Scope, Ty};
use crate::model::mv::num;
use crate::model::{F, MV, json};
use blots_core::expressions::validate_portable_value;
use blots_core::values::{SerializableValue, Value};
use proptest::prelude::*;
use serde::{Deserialize, Serialize};

pub const RULE: &str = "functions closed after capture: (a) random typed functions (lambdas of 1-2 parameters, optional parameters, curried, do-block bodies, built-ins, existing closures) whose bodies use parameters, built-ins and captured values from a pool (strings with both kinds of quotes, backslashes, line breaks; negative, huge, tiny, +-inf, NaN, -0 numbers; nested lists; records with keys that need quotes; other closures); (b) enumerated operator shapes: every ordered pair / triple of binary operators and every prefix / postfix / binary and compound-operand combination as the body of (a, b, c, d, x, i, k) => BODY. Each function is emitted (from_value -> to_json -> text), reloaded with from_json -> to_value into a FRESH heap as inputs.f of a fresh program and applied to generated argument tuples; results (or failure) must equal the original's, also for the second generation (emit the reloaded function again), and validate_portable_value must accept the original. 4% also run as `blots prog1 | blots prog2`. Non-trivial = at least one argument tuple evaluates successfully on the original and the body is compound; distinct by (function text, arguments).";
pub const ASSUMPTIONS: &[&str] = &[
    "equivalence is sampled on the generated argument tuples",
    "when both the original and the reloaded call return functions, those are only compared for being functions",
    "self-recursive functions and functions reading #name are not closed after capture and are not generated; `inputs.x` is captured like any other free name and is generated",
];

const POOL_TEXT: &str = "mk = k => x => x * k\ncf1 = x => x + n1\ncf2 = mk(4)\n";

fn pool() -> Vec<(&'static str, MV)> {
    let s = |x: &str| MV::Str(x.to_string());
    vec![
        ("cs1", s("say \"hi\"")),
        ("cs2", s("it's")),
        ("cs3", s("both ' and \"")),
        ("cs4", s("a\\b\\")),
        ("cs5", s("line1\nline2")),
        ("cn1", num(-5.0)),
        ("cn2", num(1e21)),
        ("cn3", num(1.5e-7)),
        ("cn4", num(f64::INFINITY)),
        ("cn5", num(f64::NEG_INFINITY)),
        ("cn6", num(f64::NAN)),
        ("cn7", num(-0.0)),
        ("cn8", num(0.1 + 0.2)),
        ("cn9", num(-1e300)),
        ("cl1", MV::List(vec![MV::List(vec![num(1.0), MV::List(vec![num(-2.0)])]), s("x\"y"), MV::Null, MV::Bool(true)])),
        ("cl2", MV::List(vec![num(-1.0), num(2.5), num(1e21)])),
        (
            "cr1",
            MV::Rec(vec![
                ("a".into(), num(5.0)),
                ("b".into(), num(-6.0)),
                ("a b".into(), num(1.0)),
                ("if".into(), num(2.0)),
                ("".into(), num(3.0)),
                ("it's".into(), num(4.0)),
                ("both'\"".into(), num(6.0)),
                ("true".into(), s("t")),
                ("café".into(), num(7.0)),
                // identifiers padded with blanks: other keys than the plain names
                (" a".into(), num(8.0)),
                ("b ".into(), num(9.0)),
                ("x\n".into(), num(10.0)),
                ("\tb".into(), num(11.0)),
            ]),
        ),
    ]
}

fn scope() -> Scope {
    let mut sc = Scope::prelude();
    for (n, v) in pool() {
        match v {
            MV::Num(_) => sc.nums.push(n.into()),
            MV::Str(_) => sc.strs.push(n.into()),
            MV::Rec(_) => sc.recs.push(n.into()),
            MV::List(_) if n == "cl2" => sc.lists.push(n.into()),
            _ => {}
        }
    }
    sc.fns.push("cf1".into());
    sc.fns.push("cf2".into());
    sc
}

fn session() -> Result<Sess, String> {
    let sess = Sess::new();
    for src in [typed::PRELUDE, POOL_TEXT] {
        for r in sess.run_program(src)? {
            r?;
        }
    }
    for (n, v) in pool() {
        sess.bind(n, &v);
    }
    // the defining program's inputs record: a function that reads `inputs.x` captures it
    sess.set_inputs(&[("n".into(), num(4.0)), ("k".into(), MV::Rec(vec![("base".into(), num(41.0))]))]);
    Ok(sess)
}

#[derive(Clone, Debug, Serialize, Deserialize)]
pub struct Case {
    pub func: E,
    pub args: Vec<Vec<MV>>,
    pub full_parens: bool,
    pub cli: bool,
}

pub struct Portable;

fn same(a: &Obs, b: &Obs) -> bool {
    match (a, b) {
        (Ok(MV::Fn(_)), Ok(MV::Fn(_))) => true,
        (Ok(x), Ok(y)) => x.same_nanclass(y),
        (Err(_), Err(_)) => true,
        _ => false,
    }
}

fn apply(sess: &Sess, callee: &str, args: &[MV]) -> Obs {
    let names: Vec<String> = (0..args.len()).map(|i| format!("arg{}", i)).collect();
    for (n, a) in names.iter().zip(args) {
        sess.bind(n, a);
    }
    sess.probe(&format!("{}({})", callee, names.join(", ")))
}

fn reload(text: &str) -> Result<(Sess, Value), String> {
    let v: serde_json::Value = serde_json::from_str(text).map_err(|e| format!("emitted JSON invalid: {}", e))?;
    let sv = crate::blots::from_json(&v);
    if !matches!(sv, SerializableValue::Lambda(_) | SerializableValue::BuiltIn(_)) {
        return Err("not-a-function".into());
    }
    let s2 = Sess::new();
    let val = sv.to_value(&mut s2.heap.borrow_mut()).map_err(|e| format!("to_value: {}", e))?;
    let mut m = indexmap::IndexMap::new();
    m.insert("f".to_string(), val);
    let rec = s2.heap.borrow_mut().insert_record(m);
    s2.bind_value("inputs", rec);
    Ok((s2, val))
}

fn body_class(func: &E) -> String {
    match func {
        E::Lambda(_, body) => match body.as_ref() {
            E::Bin(op, l, r) => format!("binary({}):{}:{}", op.text(), l.kind(), r.kind()),
            other => format!("{}:{}", other.kind(), other.children().first().map(|c| c.kind()).unwrap_or("-")),
        },
        other => other.kind().to_string(),
    }
}

impl Check for Portable {
    type Case = Case;
    fn name(&self) -> &'static str {
        "portable"
    }
    fn journal(&self) -> bool {
        true
    }
    fn run(&self, c: &Case, ctx: &mut Ctx) -> Outcome {
        let sess = match session() {
            Ok(s) => s,
            Err(e) => fail!("harness:prelude", "{}", e),
        };
        let text = Printer::new(if c.full_parens { Mode::Full } else { Mode::Minimal }, Tape::empty()).expr(&c.func, 0);
        let g = match sess.eval_src(&format!("g = {}", text)) {
            Ok(v) => v,
            Err(_) => {
                ctx.discard();
                return Ok(());
            }
        };
        if !matches!(g, Value::Lambda(_) | Value::BuiltIn(_)) {
            ctx.discard();
            return Ok(());
        }
        let cls = body_class(&c.func);
        ctx.label(c.func.kind());
        let originals: Vec<Obs> = c.args.iter().map(|a| apply(&sess, "g", a)).collect();
        let compound = matches!(&c.func, E::Lambda(_, b) if b.size() > 1);
        if compound && originals.iter().any(|o| o.is_ok()) {
            ctx.nontrivial(hash_str(&format!("{}|{:?}", text, c.args)));
        }
        if let Err(e) = validate_portable_value(&g, &sess.heap.borrow(), &sess.env) {
            fail!(format!("validate:rejects-closed-function:{}", cls), "validate_portable_value rejects `{}`: {}", text, e);
        }
        let sv = match SerializableValue::from_value(&g, &sess.heap.borrow()) {
            Ok(sv) => sv,
            Err(e) => fail!(format!("emit:fails:{}", cls), "`{}` does not serialise: {}", text, e),
        };
        let emitted = serde_json::to_string(&sv.to_json()).unwrap();
        let mut gen_text = emitted.clone();
        for generation in 1..=2 {
            let (s2, val) = match reload(&gen_text) {
                Ok(x) => x,
                Err(e) => {
                    let natural = json::parse(&gen_text)
                        .ok()
                        .and_then(|m| match m {
                            MV::Rec(f) => f.into_iter().find(|(k, _)| k == "__blots_function").map(|(_, v)| v),
                            _ => None,
                        })
                        .map(|v| match v {
                            MV::Str(src) => {
                                // skip the parameter list, look at the body's top-level chain
                                let body = src.split_once("=>").map(|x| x.1.to_string()).unwrap_or_default();
                                expr::has_top_level_word(&body, &["via", "into", "where"])
                            }
                            _ => false,
                        })
                        .unwrap_or(false);
                    fail!(
                        format!("reload{}:{}:{}", generation, if natural { "natural-op-in-top-level-body" } else { "rejected" }, if natural { "lambda".to_string() } else { cls.clone() }),
                        "`{}` is emitted as {} which does not reload as a function ({})",
                        text,
                        gen_text,
                        e
                    );
                }
            };
            for (a, orig) in c.args.iter().zip(&originals) {
                let re = apply(&s2, "inputs.f", a);
                if !same(orig, &re) {
                    let how = match (orig, &re) {
                        (Ok(_), Ok(_)) => "value-differs",
                        (Ok(_), Err(_)) => "reloaded-fails",
                        _ => "reloaded-succeeds",
                    };
                    fail!(
                        format!("behaviour{}:{}:{}", generation, how, cls),
                        "`{}` applied to {:?} gives {:?}; emitted as {} and reloaded (generation {}) it gives {:?}",
                        text,
                        a.iter().map(|x| x.to_source(false)).collect::<Vec<_>>(),
                        orig,
                        gen_text,
                        generation,
                        re
                    );
                }
            }
            // emit the reloaded function again
            let sv2 = match SerializableValue::from_value(&val, &s2.heap.borrow()) {
                Ok(x) => x,
                Err(e) => fail!(format!("emit{}:fails:{}", generation + 1, cls), "re-emission failed: {}", e),
            };
            gen_text = serde_json::to_string(&sv2.to_json()).unwrap();
        }
        if c.cli {
            self.cli_chain(c, &text, ctx)?;
        }
        Ok(())
    }
}

impl Portable {
    /// `blots prog1 | blots prog2` with a function that only uses the textual prelude
    fn cli_chain(&self, c: &Case, text: &str, ctx: &mut Ctx) -> Outcome {
        fn uses_pool(e: &E) -> bool {
            let pool_name = |n: &str| n.starts_with('c') && n.len() <= 3 && n != "c";
            let short = matches!(e, E::Rec(items) if items.iter().any(|i| matches!(i, crate::gen_::expr::RE::Short(n) if pool_name(n))));
            short || matches!(e, E::Id(n) if pool_name(n)) || e.children().iter().any(|x| uses_pool(x))
        }
        if uses_pool(&c.func) {
            return Ok(());
        }
        let finite_args: Vec<&Vec<MV>> = c.args.iter().filter(|a| a.iter().all(|x| x.all_finite() && !x.has_nan())).collect();
        let Some(args) = finite_args.first() else { return Ok(()) };
        ctx.label("cli-chain");
        let prog1 = format!("{}{}output f = {}\n", typed::PRELUDE, POOL_TEXT, text);
        let arg_src: Vec<String> = args.iter().map(|a| a.to_source(false)).collect();
        let prog2 = format!("output r = inputs.f({})\n", arg_src.join(", "));
        let dir = crate::engine::proc::scratch_dir("c05");
        let (p1, p2) = (format!("{}/p1.blots", dir), format!("{}/p2.blots", dir));
        std::fs::write(&p1, &prog1).unwrap();
        std::fs::write(&p2, &prog2).unwrap();
        let r1 = run_proc(&ctx.cli_path, &[p1.clone()], None, None, &Limits::default());
        let res = (|| -> Outcome {
            let r1 = match r1 {
                Ok(r) => r,
                Err(e) => fail!("cli:spawn", "{}", e),
            };
            if r1.timed_out {
                return Ok(());
            }
            // direct evaluation in-process for the expectation
            let s = Sess::new();
            s.set_inputs(&[]);
            let direct = s.run_program(&format!("{}{}g = {}\noutput r = g({})\n", typed::PRELUDE, POOL_TEXT, text, arg_src.join(", ")));
            let expect: Obs = match direct {
                Ok(v) => v.last().cloned().unwrap_or(Err("empty".into())),
                Err(e) => Err(e),
            };
            if r1.code != Some(0) {
                // prog1 may legitimately fail only if the definition itself fails
                if expect.is_ok() {
                    fail!("cli:prog1-failed", "blots prog1 failed ({}) although the function evaluates in-process: {} {}", r1.describe(), r1.stdout, r1.stderr);
                }
                return Ok(());
            }
            let r2 = match run_proc(&ctx.cli_path, &[p2.clone()], Some(r1.stdout.as_bytes()), None, &Limits::default()) {
                Ok(r) => r,
                Err(e) => fail!("cli:spawn", "{}", e),
            };
            if r2.timed_out {
                return Ok(());
            }
            let got: Obs = if r2.code == Some(0) {
                match json::parse(r2.stdout.trim()) {
                    Ok(MV::Rec(f)) if f.len() == 1 => Ok(f[0].1.clone()),
                    other => Err(format!("unexpected stdout {:?}", other)),
                }
            } else {
                Err(format!("exit {}", r2.describe()))
            };
            let ok = match (&expect, &got) {
                (Ok(MV::Fn(_)), Ok(_)) => true,
                (Ok(x), Ok(y)) => !x.all_finite() || x.model_eq(y),
                (Err(_), Err(_)) => true,
                _ => false,
            };
            if !ok {
                fail!("cli:chain-differs", "`blots prog1 | blots prog2` gives {:?}, direct evaluation gives {:?}\n--- prog1:\n{}--- prog2:\n{}--- piped JSON: {}", got, expect, prog1, prog2, r1.stdout);
            }
            Ok(())
        })();
        let _ = std::fs::remove_dir_all(&dir);
        res
    }
}

fn arg_value() -> BoxedStrategy<MV> {
    prop_oneof![
        6 => prop::sample::select(vec![0.0, 1.0, 2.0, 3.0, -1.0, 0.5, 6.0, 10.0, -2.5]).prop_map(num),
        1 => prop::sample::select(vec![f64::NAN, f64::INFINITY, -0.0, 1e21, 1e-7]).prop_map(num),
        1 => Just(MV::Null),
        1 => Just(MV::Bool(true)),
        1 => Just(MV::Str("s".into())),
        1 => Just(MV::List(vec![num(1.0), num(2.0)])),
    ]
    .boxed()
}

fn arity_of(e: &E) -> usize {
    match e {
        E::Lambda(ps, _) => ps.len().max(1),
        _ => 1,
    }
}

pub fn strategy() -> BoxedStrategy<Case> {
    (prop::collection::vec(any::<u16>(), 0..160), prop::collection::vec(prop::collection::vec(arg_value(), 3..=3), 3..=4), any::<bool>(), prop::bool::weighted(0.04))
        .prop_map(|(tape, argpool, full_parens, cli)| {
            let sc = scope();
            let mut func = typed::gen_e(&mut Tape::new(&tape), &sc, Ty::F, 5);
            // one in six lambda literals also reads the inputs record it is defined under
            if tape.first().map(|x| x % 6 == 0).unwrap_or(false)
                && let E::Lambda(ps, body) = &func
            {
                let reads = E::List(vec![(**body).clone(), E::Field(Box::new(E::Id("inputs".into())), "n".into()), E::Field(Box::new(E::Field(Box::new(E::Id("inputs".into())), "k".into())), "base".into())]);
                func = E::Lambda(ps.clone(), Box::new(reads));
            }
            let k = arity_of(&func).min(3);
            let args: Vec<Vec<MV>> = argpool.into_iter().map(|a| a.into_iter().take(k).collect()).collect();
            Case { func, args, full_parens, cli }
        })
        .boxed()
}

pub fn run(ctx: &mut Ctx) {
    // enumerated operator shapes as function bodies
    let params: Vec<P> = ["a", "b", "c", "d", "x", "i", "k", "t"].iter().map(|n| P::Req(n.to_string())).collect();
    let args = vec![
        vec![num(6.0), num(3.0), num(2.0), num(1.0), num(4.0), num(0.0), num(5.0), num(7.0)],
        vec![MV::Bool(true), MV::Bool(false), MV::Bool(true), MV::Bool(false), MV::Bool(true), MV::Bool(false), MV::Bool(true), MV::Bool(true)],
        vec![MV::List(vec![num(1.0), num(2.0)]), num(2.0), MV::Null, num(0.5), num(1.0), num(1.0), num(2.0), num(3.0)],
        vec![MV::Null, num(-3.0), num(2.0), MV::Null, MV::Rec(vec![("k".into(), num(9.0))]), num(0.0), num(1.0), num(2.0)],
    ];
    let shapes = expr::operator_shapes();
    let cases = shapes.into_iter().map(move |body| Case {
        func: E::Lambda(params.clone(), Box::new(body)),
        args: args.clone(),
        full_parens: false,
        cli: false,
    });
    ctx.run_enum(&Portable, cases, true);
    ctx.run_random(&Portable, strategy(), ctx.tier.pick(12_000, 300_000));
    let _ = F(0.0);
}
