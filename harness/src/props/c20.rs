//! C20 — displayed numbers are well-formed numerals accurate to 15 significant digits.

use crate::engine::{Check, Ctx, Failure, Outcome};
use crate::fail;
use crate::gen_::any_f64;
use crate::model::dec::Dec;
use crate::model::{F, MV};
use blots_core::values::format_display_number;
use proptest::prelude::*;
use std::cmp::Ordering;

pub const RULE: &str = "doubles from a boundary pool, notation thresholds (1e-4, 1e15) and powers of ten +-4 ulps (and +-400 ulps for 1e-10..1e22), whole numbers 1..10^5 +-4000 ulps, 15-digit carry values, subnormals and uniformly random bit patterns; each is rendered by format_display_number (1 in 16 also through the format built-in, alone and nested in a list / record argument), parsed by the harness's numeral grammar and compared with the exact decimal expansion of the double. Non-trivial = finite and not an integer below 1e15; distinct by bit pattern.";
pub const ASSUMPTIONS: &[&str] = &[
    "Rust's float formatting with explicit precision ({:.1100e}) is exact (trusted base of the decimal model)",
    "the harness decimal arithmetic (model::dec) is correct; it has its own unit test",
];

pub struct Display;

#[derive(Debug, PartialEq)]
enum Numeral {
    Standard { value: Dec, has_fraction: bool },
    Scientific { value: Dec },
}

/// numeral grammar of the statement: optional sign, integer digits grouped in threes by
/// commas, optional fraction; or mantissa 'e' exponent
fn parse_numeral(s: &str) -> Result<Numeral, String> {
    let body = s.strip_prefix('-').unwrap_or(s);
    if body.is_empty() {
        return Err("empty".into());
    }
    if let Some((m, e)) = body.split_once('e') {
        // mantissa: digits [. digits]; exponent: optional '-' digits
        let mant_ok = {
            let (i, f) = match m.split_once('.') {
                Some((i, f)) => (i, Some(f)),
                None => (m, None),
            };
            !i.is_empty()
                && i.bytes().all(|b| b.is_ascii_digit())
                && f.map(|f| !f.is_empty() && f.bytes().all(|b| b.is_ascii_digit())).unwrap_or(true)
        };
        let ed = e.strip_prefix('-').unwrap_or(e);
        if !mant_ok || ed.is_empty() || !ed.bytes().all(|b| b.is_ascii_digit()) {
            return Err(format!("malformed scientific numeral {:?}", s));
        }
        let value = Dec::parse(&format!("{}{}e{}", if s.starts_with('-') { "-" } else { "" }, m, e))
            .ok_or_else(|| format!("unparseable scientific numeral {:?}", s))?;
        return Ok(Numeral::Scientific { value });
    }
    let (int, frac) = match body.split_once('.') {
        Some((i, f)) => (i, Some(f)),
        None => (body, None),
    };
    if let Some(f) = frac
        && (f.is_empty() || !f.bytes().all(|b| b.is_ascii_digit()))
    {
        return Err(format!("malformed fraction in {:?}", s));
    }
    let groups: Vec<&str> = int.split(',').collect();
    for (i, g) in groups.iter().enumerate() {
        let ok_len = if i == 0 { (1..=3).contains(&g.len()) } else { g.len() == 3 };
        if !ok_len || !g.bytes().all(|b| b.is_ascii_digit()) {
            return Err(format!("integer part of {:?} is not grouped in threes", s));
        }
    }
    if groups[0].starts_with('0') && (groups.len() > 1 || groups[0].len() > 1) {
        return Err(format!("leading zero in {:?}", s));
    }
    let plain: String = int.chars().filter(|c| *c != ',').collect();
    let text = format!(
        "{}{}{}",
        if s.starts_with('-') { "-" } else { "" },
        plain,
        frac.map(|f| format!(".{}", f)).unwrap_or_default()
    );
    let value = Dec::parse(&text).ok_or_else(|| format!("unparseable numeral {:?}", s))?;
    Ok(Numeral::Standard {
        value,
        has_fraction: frac.is_some(),
    })
}

pub fn check_display(x: f64, s: &str) -> Outcome {
    if x.is_nan() {
        if s != "NaN" {
            fail!("special:name", "NaN displayed as {:?}", s);
        }
        return Ok(());
    }
    if x.is_infinite() {
        let want = if x > 0.0 { "Infinity" } else { "-Infinity" };
        if s != want {
            fail!("special:name", "{} displayed as {:?}", x, s);
        }
        return Ok(());
    }
    let num = match parse_numeral(s) {
        Ok(n) => n,
        Err(e) => fail!("malformed", "display of {:e} (bits {:016x}) = {:?}: {}", x, x.to_bits(), s, e),
    };
    let exact = Dec::from_f64(x);
    let (value, notation) = match &num {
        Numeral::Standard { value, .. } => (value, "standard"),
        Numeral::Scientific { value } => (value, "scientific"),
    };
    if x != 0.0 && (x < 0.0) != s.starts_with('-') {
        fail!(format!("{}:sign", notation), "display of {:e} = {:?} has the wrong sign", x, s);
    }
    if x == 0.0 {
        if !value.is_zero() {
            fail!(format!("{}:inaccurate", notation), "zero displayed as {:?}", s);
        }
        return Ok(());
    }
    let e = exact.leading_exp().unwrap();
    let err = value.sub(&exact).abs();
    let bound = Dec::pow10(e - 14);
    if err.cmp_abs(&bound) != Ordering::Less {
        fail!(
            format!("{}:inaccurate", notation),
            "display of {:e} (bits {:016x}) = {:?}: |shown - true| = {}e{} is not below one unit of the 15th significant digit (1e{})",
            x,
            x.to_bits(),
            s,
            err.digit_string().chars().take(6).collect::<String>(),
            err.exp + err.digits.len() as i64 - 6.min(err.digits.len() as i64),
            e - 14
        );
    }
    if notation == "standard" && x.fract() == 0.0 && x.abs() < 9007199254740992.0 && value.cmp(&exact) != Ordering::Equal {
        fail!("standard:integer-inexact", "integer {:e} displayed as {:?}", x, s);
    }
    Ok(())
}

impl Check for Display {
    type Case = F;
    fn name(&self) -> &'static str {
        "display"
    }
    fn run(&self, case: &F, ctx: &mut Ctx) -> Outcome {
        let x = case.0;
        let s = format_display_number(x);
        ctx.label(if !x.is_finite() {
            "special"
        } else if s.contains('e') {
            "scientific"
        } else if s.contains('.') {
            "standard-fraction"
        } else {
            "standard-integer"
        });
        if x.is_finite() && !(x.fract() == 0.0 && x.abs() < 1e15) {
            ctx.nontrivial(x.to_bits());
        }
        check_display(x, &s)?;
        // 1 in 16: the same number through the `format` built-in
        if crate::engine::mix(x.to_bits(), 7) % 16 == 0 {
            let sess = crate::blots::Sess::new();
            sess.bind("x", &MV::Num(F(x)));
            match sess.obs("format(\"{}\", x)") {
                Ok(MV::Str(t)) => {
                    if t != s {
                        fail!(
                            "format-builtin:differs",
                            "format(\"{{}}\", x) = {:?} but format_display_number = {:?} for {:e}",
                            t,
                            s,
                            x
                        );
                    }
                }
                other => fail!("format-builtin:error", "format(\"{{}}\", {:e}) gave {:?}", x, other),
            }
            // the number inside a list / record argument is displayed the same way
            let want_nested = format!("[{}, {{k: {}, l: [{}]}}] {}", s, s, s, s);
            match sess.obs("format(\"{} {}\", [x, {k: x, l: [x]}], x)") {
                Ok(MV::Str(t)) if t == want_nested => {}
                other => fail!("format-builtin:nested-differs", "format(\"{{}} {{}}\", [x, {{k: x, l: [x]}}], x) = {:?}, expected {:?} (x = {:e})", other, want_nested, x),
            }
            // templates with literal braces / escaped braces use the same display form
            let want_braces = format!("{{{}}} {{x}} = {}", s, s);
            match sess.obs("format(\"{{{}}} {{x}} = {}\", x, x)") {
                Ok(MV::Str(t)) if t == want_braces => {}
                other => fail!("format-builtin:brace-template-differs", "format(\"{{{{{{}}}}}} {{{{x}}}} = {{}}\", x, x) = {:?}, expected {:?} (x = {:e})", other, want_braces, x),
            }
            ctx.label("via-format-builtin");
        }
        Ok(())
    }
}

fn neighbours(x: f64, d: i64) -> f64 {
    let b = x.to_bits() as i64 + d;
    let y = f64::from_bits(b as u64);
    if y.is_finite() { y } else { x }
}

pub fn strategy() -> BoxedStrategy<F> {
    prop_oneof![
        4 => any_f64(),
        // notation thresholds and powers of ten +- a few ulps, both signs
        3 => (-320i32..309, -4i64..5, any::<bool>()).prop_map(|(k, d, neg)| {
            let x = neighbours(format!("1e{}", k).parse::<f64>().unwrap(), d);
            if neg { -x } else { x }
        }),
        // a wider neighbourhood below / above powers of ten (where the digit count of the value
        // and of its 15-digit rounding differ) and just above whole numbers
        2 => (-10i32..23, -400i64..400, any::<bool>()).prop_map(|(k, d, neg)| {
            let x = neighbours(format!("1e{}", k).parse::<f64>().unwrap(), d);
            if neg { -x } else { x }
        }),
        1 => (1u32..100_000, 0i64..4000, any::<bool>()).prop_map(|(w, d, neg)| {
            let x = neighbours(w as f64, if neg { -d } else { d });
            x
        }),
        // values whose 15-digit rounding carries: 9.99999999999999x * 10^k, d.ddd...5 * 10^k
        2 => (-30i32..30, 0u64..2000, any::<bool>()).prop_map(|(k, t, neg)| {
            let m = 9.999_999_999_999_9 + (t as f64) * 1e-17;
            let x = format!("{:.17}e{}", m, k).parse::<f64>().unwrap();
            if neg { -x } else { x }
        }),
        2 => (1u64..1_000_000_000_000_000, -25i32..10).prop_map(|(m, k)| {
            // 15-digit mantissas followed by a 5 (round-half cases)
            format!("{}5e{}", m, k).parse::<f64>().unwrap()
        }),
        // integers around 2^53 and 1e15
        1 => (-64i64..64, prop::sample::select(vec![9007199254740992.0f64, 1e15, 1e14, 999999999999999.0, 4503599627370496.0]))
            .prop_map(|(d, b)| b + d as f64),
        1 => (0u64..(1u64 << 52)).prop_map(f64::from_bits), // subnormals
        1 => (any::<u64>()).prop_map(|b| {
            // the standard-notation band 1e-4 .. 1e15, uniformly in exponent
            let e = (b % 64) as i32 - 14;
            let frac = ((b >> 8) as f64) / ((1u64 << 56) as f64);
            (1.0 + frac) * 2f64.powi(e)
        }),
    ]
    .prop_map(F)
    .boxed()
}

pub fn run(ctx: &mut Ctx) {
    // enumerated boundary pool first
    let pool: Vec<F> = crate::gen_::BOUNDARY_F64
        .iter()
        .flat_map(|x| [F(*x), F(-*x)])
        .chain([F(f64::NAN), F(f64::INFINITY), F(f64::NEG_INFINITY)])
        // NaN with the sign bit set (what 0 / 0 gives on x86-64) and with payload bits
        .chain([F(-f64::NAN), F(f64::from_bits(0xfff8_0000_0000_0000)), F(f64::from_bits(0xfff8_0000_0000_0001)), F(f64::from_bits(0x7ff8_0000_0000_beef)), F(f64::from_bits(0xfff0_0000_0000_0001))])
        .collect();
    ctx.run_enum(&Display, pool.into_iter(), false);
    let n = ctx.tier.pick(400_000, 24_000_000);
    ctx.run_random(&Display, strategy(), n);
}

#[allow(dead_code)]
fn _unused(_: Failure) {}
