//! C10 — parsing: fixed precedence table, layout-insensitive, all plain names usable.

use crate::blots::{Sess, parse_expr, parse_program};
use crate::engine::{Check, Ctx, Outcome, hash_str};
use crate::fail;
use crate::gen_::expr::{self, E, Mode, Printer, Tape, bin, id, print_full, print_min};
use crate::model::MV;
use crate::model::prec::{ALL_OPS, Op};
use proptest::prelude::*;
use serde::{Deserialize, Serialize};

pub const RULE: &str = "(a) operator trees rendered fully parenthesised and minimally parenthesised under a reference table transcribed from the statement; both must parse to the tree they were rendered from: all ordered pairs (2 shapes) and triples (5 shapes) of the 26 binary operators, every prefix/postfix/binary combination, random trees to depth 8 over all node kinds. (b) programs re-rendered with random admissible layout (spaces, tabs, LF / CRLF line breaks, swallowed comments at continuation positions, redundant parentheses, trailing commas, `;` in do-blocks) must parse to the same statements as the canonical layout; boolean programs evaluate identically under the word and symbol spellings of and/or/not. (c) every reserved word extended by a letter / digit / underscore (suffix and prefix) and random identifiers are bound and then referenced in ~25 expression contexts. Non-trivial: (a) >= 2 operators, (b) >= 3 layout edits, (c) name shares a prefix or suffix with a reserved word; distinct by rendered text.";
pub const ASSUMPTIONS: &[&str] = &[
    "the reference precedence table (model::prec) and the layout positions (gen_::expr::Printer) are transcribed from the statement / grammar.pest at the pinned commit; the layout table is a sound under-approximation of the admitted positions",
    "via / into / where, inf / infinity, inputs, constants and built-in names are not used as plain names (they have a meaning of their own)",
];

#[derive(Clone, Debug, Serialize, Deserialize)]
pub enum Case {
    Tree(E),
    Layout { prog: Vec<E>, tape: Vec<u16>, crlf: bool },
    Spelling(E),
    Name(String),
    /// two spellings of one program that differ in optional layout only
    Text { canonical: String, varied: String },
}

pub struct Parsing;

fn count_ops(e: &E) -> usize {
    let own = matches!(e, E::Bin(..) | E::Neg(_) | E::Not(..) | E::Fact(_) | E::Call(..) | E::Index(..) | E::Field(..)) as usize;
    own + e.children().iter().map(|c| count_ops(c)).sum::<usize>()
}

fn sig_of_tree(e: &E) -> String {
    // (parent kind / child kinds) of the topmost operator pair
    fn opname(e: &E) -> String {
        match e {
            E::Bin(op, ..) => op.text().to_string(),
            other => other.kind().to_string(),
        }
    }
    let kids: Vec<String> = e.children().iter().map(|c| opname(c)).collect();
    format!("{}({})", opname(e), kids.join(","))
}

/// first (parent, child, side) at which two core ASTs differ
fn first_diff(a: &blots_core::ast::SpannedExpr, b: &blots_core::ast::SpannedExpr) -> String {
    use blots_core::ast::Expr as X;
    fn k(e: &X) -> String {
        match e {
            X::BinaryOp { op, .. } => format!("{:?}", op),
            X::UnaryOp { op, .. } => format!("{:?}", op),
            X::PostfixOp { .. } => "Factorial".into(),
            X::Call { .. } => "Call".into(),
            X::Access { .. } => "Access".into(),
            X::DotAccess { .. } => "DotAccess".into(),
            X::Lambda { .. } => "Lambda".into(),
            X::Conditional { .. } => "Conditional".into(),
            X::Assignment { .. } => "Assignment".into(),
            X::List(_) => "List".into(),
            X::Record(_) => "Record".into(),
            X::DoBlock { .. } => "DoBlock".into(),
            X::Spread(_) => "Spread".into(),
            X::Identifier(_) => "Identifier".into(),
            X::BuiltIn(_) => "BuiltIn".into(),
            X::Number(_) => "Number".into(),
            X::String(_) => "String".into(),
            other => format!("{:?}", std::mem::discriminant(other)),
        }
    }
    format!("{}~{}", k(&a.node), k(&b.node))
}

const CONTEXTS: &[(&str, &str)] = &[
    ("NAME", "7"),
    ("NAME + 1", "8"),
    ("1 + NAME", "8"),
    ("2 * NAME - NAME", "7"),
    ("-NAME", "-7"),
    ("NAME!", "5040"),
    ("NAME == 7", "true"),
    ("NAME .== 7", "true"),
    ("NAME < 8 and NAME > 6", "true"),
    ("not (NAME == 7)", "false"),
    ("!(NAME == 7)", "false"),
    ("NAME ?? 0", "7"),
    ("[NAME]", "[7]"),
    ("[1, NAME, 3][1]", "7"),
    ("{k: NAME}.k", "7"),
    ("{NAME}.NAME", "7"),
    ("{NAME: 3}.NAME", "3"),
    ("idf(NAME)", "7"),
    ("[10, 20, 30, 40, 50, 60, 70, 80][NAME]", "80"),
    ("if NAME == 7 then NAME else 0", "7"),
    ("if false then 0 else NAME", "7"),
    ("if true then NAME else 0", "7"),
    ("(NAME => NAME + 1)(1)", "2"),
    ("((a, NAME?) => NAME)(1)", "null"),
    ("((...NAME) => NAME)(1, 2)", "[1, 2]"),
    ("(x => NAME)(0)", "7"),
    ("do { t = NAME; return t + 1 }", "8"),
    ("do {\n  NAME = 1\n  return NAME\n}", "1"),
    ("NAME into idf", "7"),
    ("[1, 2] via (q => q + NAME)", "[8, 9]"),
    ("#NAME", "9"),
    ("inputs.NAME", "9"),
    ("[NAME, NAME] where (q => q == NAME)", "[7, 7]"),
    ("NAME\n+ 1", "8"),
];

impl Check for Parsing {
    type Case = Case;
    fn name(&self) -> &'static str {
        "parsing"
    }
    fn run(&self, c: &Case, ctx: &mut Ctx) -> Outcome {
        match c {
            Case::Tree(e) => {
                ctx.label("precedence-tree");
                let want = e.to_core();
                let full = print_full(e);
                let min = print_min(e);
                if count_ops(e) >= 2 {
                    ctx.nontrivial(hash_str(&min));
                }
                let pf = match parse_expr(&full) {
                    Ok(p) => p,
                    Err(err) => fail!(format!("full-form-rejected:{}", sig_of_tree(e)), "fully parenthesised text {:?} does not parse: {}", full, err),
                };
                if pf != want {
                    fail!(format!("full-form-misparsed:{}", sig_of_tree(e)), "fully parenthesised text {:?} parses to a different tree ({})", full, first_diff(&pf, &want));
                }
                let pm = match parse_expr(&min) {
                    Ok(p) => p,
                    Err(err) => fail!(format!("min-form-rejected:{}", sig_of_tree(e)), "text {:?} (minimal parentheses under the reference table) does not parse: {}", min, err),
                };
                if pm != want {
                    fail!(
                        format!("precedence:{}", sig_of_tree(e)),
                        "{:?} should group as {:?} under the documented table, but parses differently (first difference {})",
                        min,
                        full,
                        first_diff(&pm, &want)
                    );
                }
                Ok(())
            }
            Case::Layout { prog, tape, crlf } => {
                ctx.label(if *crlf { "layout-crlf" } else { "layout" });
                let canonical = Printer::new(Mode::Full, Tape::empty()).program(prog);
                let mut pr = Printer::new(if tape.first().map(|t| t % 2 == 0).unwrap_or(true) { Mode::Minimal } else { Mode::Full }, Tape::new(tape));
                pr.continuation_comments = true;
                pr.redundancy = true;
                let mut varied = pr.program(prog);
                fn has_multiline_string(e: &E) -> bool {
                    matches!(e, E::Str(s) if s.contains('\n') || s.contains('\r'))
                        || matches!(e, E::Rec(items) if items.iter().any(|i| matches!(i, crate::gen_::expr::RE::Pair(k, _) if k.contains('\n') || k.contains('\r'))))
                        || e.children().iter().any(|c| has_multiline_string(c))
                }
                // CRLF conversion must not touch line breaks inside string literals
                if *crlf && !prog.iter().any(has_multiline_string) {
                    varied = varied.replace("\r\n", "\n").replace('\n', "\r\n");
                }
                if pr.layout_edits >= 3 {
                    ctx.nontrivial(hash_str(&varied));
                }
                let a = match parse_program(&canonical, false) {
                    Ok(a) => a,
                    Err(e) => fail!("layout:canonical-rejected", "canonical text {:?} does not parse: {}", canonical, e),
                };
                let b = match parse_program(&varied, false) {
                    Ok(b) => b,
                    Err(e) => fail!(format!("layout:rejected:{}", layout_feature(&varied, &e)), "layout variant does not parse: {}\n--- variant:\n{}\n--- canonical:\n{}", e, varied, canonical),
                };
                let sa: Vec<_> = a.iter().map(|s| s.stmt.clone()).collect();
                let sb: Vec<_> = b.iter().map(|s| s.stmt.clone()).collect();
                if sa != sb {
                    fail!("layout:different-program", "layout variant parses to a different program\n--- variant:\n{}\n--- canonical:\n{}", varied, canonical);
                }
                let want: Vec<_> = prog.iter().map(|e| e.to_core()).collect();
                let got: Vec<_> = a.iter().filter_map(|s| s.stmt.for_format()).collect();
                if want != got {
                    fail!("layout:canonical-misparsed", "canonical text {:?} parses to a different program than it was rendered from", canonical);
                }
                Ok(())
            }
            Case::Text { canonical, varied } => {
                ctx.label("layout-designed");
                ctx.nontrivial(hash_str(varied));
                let a = match parse_program(canonical, false) {
                    Ok(a) => a,
                    Err(e) => fail!("layout:canonical-rejected", "canonical text {:?} does not parse: {}", canonical, e),
                };
                let b = match parse_program(varied, false) {
                    Ok(b) => b,
                    Err(e) => fail!(format!("layout:rejected:{}", layout_feature(varied, &e)), "layout variant does not parse: {}\n--- variant:\n{}\n--- canonical:\n{}", e, varied, canonical),
                };
                let sa: Vec<_> = a.iter().map(|s| s.stmt.clone()).collect();
                let sb: Vec<_> = b.iter().map(|s| s.stmt.clone()).collect();
                if sa != sb {
                    fail!("layout:different-program:designed", "layout variant parses to a different program\n--- variant:\n{}\n--- canonical:\n{}", varied, canonical);
                }
                Ok(())
            }
            Case::Spelling(e) => {
                ctx.label("spelling");
                let a = print_full(e);
                let b = print_full(&respell(e));
                ctx.nontrivial(hash_str(&a));
                let s1 = Sess::new();
                let s2 = Sess::new();
                let (ra, rb) = (s1.obs(&a), s2.obs(&b));
                let same = match (&ra, &rb) {
                    (Ok(x), Ok(y)) => x.same_nanclass(y),
                    (Err(_), Err(_)) => true,
                    _ => false,
                };
                if !same {
                    fail!("spelling:differs", "{:?} evaluates to {:?} but {:?} evaluates to {:?}", a, ra, b, rb);
                }
                Ok(())
            }
            Case::Name(name) => {
                let reserved = crate::model::mv::RESERVED;
                let stem = reserved.iter().find(|r| name.starts_with(**r) || name.ends_with(**r));
                ctx.label(if stem.is_some() { "name-near-reserved" } else { "name-plain" });
                if stem.is_some() {
                    ctx.nontrivial(hash_str(name));
                }
                let stem = stem.copied().unwrap_or("plain");
                let sess = Sess::with_inputs(&[(name.clone(), crate::model::mv::num(9.0))]);
                if let Err(e) = sess.eval_src("idf = q => q") {
                    fail!("harness:idf", "{}", e);
                }
                match sess.obs(&format!("{} = 7", name)) {
                    Ok(MV::Num(f)) if f.0 == 7.0 => {}
                    other => fail!(format!("name:bind:{}", stem), "`{} = 7` gave {:?}", name, other),
                }
                match sess.obs(&format!("output {}", name)) {
                    Ok(MV::Num(f)) if f.0 == 7.0 => {}
                    other => fail!(format!("name:output:{}", stem), "`output {}` gave {:?}", name, other),
                }
                for (ctx_src, expect) in CONTEXTS {
                    let src = ctx_src.replace("NAME", name);
                    let want = Sess::new().obs(expect);
                    let got = sess.obs(&src);
                    let ok = matches!((&got, &want), (Ok(g), Ok(w)) if g.same_bits(w));
                    if !ok {
                        fail!(
                            format!("name:reference:{}:{}", stem, ctx_src),
                            "with `{} = 7` bound, `{}` gave {:?}, expected {}",
                            name,
                            src,
                            got,
                            expect
                        );
                    }
                }
                Ok(())
            }
        }
    }
}

fn layout_feature(text: &str, _err: &str) -> &'static str {
    if text.contains("// swallowed") {
        "with-continuation-comment"
    } else if text.contains(";") {
        "with-semicolon"
    } else if text.contains('\r') {
        "crlf"
    } else if text.contains('\t') {
        "with-tab"
    } else {
        "spacing"
    }
}

fn respell(e: &E) -> E {
    let r = |x: &E| Box::new(respell(x));
    match e {
        E::Bin(op, a, b) => {
            let op2 = match op {
                Op::AndSym => Op::AndWord,
                Op::AndWord => Op::AndSym,
                Op::OrSym => Op::OrWord,
                Op::OrWord => Op::OrSym,
                o => *o,
            };
            E::Bin(op2, r(a), r(b))
        }
        E::Not(a, w) => E::Not(r(a), !w),
        E::List(v) => E::List(v.iter().map(respell).collect()),
        E::If(a, b, c) => E::If(r(a), r(b), r(c)),
        E::Neg(a) => E::Neg(r(a)),
        other => other.clone(),
    }
}

fn bool_expr(t: &mut Tape, depth: usize) -> E {
    if depth == 0 || t.exhausted() {
        return match t.pick(6) {
            0 => E::Bool(true),
            1 => E::Bool(false),
            2 => E::List(vec![E::Bool(true), E::Bool(false)]),
            3 => E::List(vec![E::Bool(false), E::Bool(false)]),
            4 => bin(Op::Lt, expr::n(1.0), expr::n(2.0)),
            _ => E::Num(crate::model::F(3.0)),
        };
    }
    let d = depth - 1;
    match t.pick(7) {
        0 | 1 => bin([Op::AndSym, Op::AndWord][t.pick(2)], bool_expr(t, d), bool_expr(t, d)),
        2 | 3 => bin([Op::OrSym, Op::OrWord][t.pick(2)], bool_expr(t, d), bool_expr(t, d)),
        4 => {
            let w = t.pick(2) == 0;
            E::Not(Box::new(bool_expr(t, d)), w)
        }
        5 => E::If(Box::new(bool_expr(t, d)), Box::new(bool_expr(t, d)), Box::new(bool_expr(t, d))),
        _ => bool_expr(t, 0),
    }
}

fn enumerated_trees() -> Vec<E> {
    expr::operator_shapes()
}

fn names() -> Vec<String> {
    let mut v = Vec::new();
    let words = ["if", "then", "else", "true", "false", "null", "and", "or", "not", "do", "return", "output"];
    for w in words {
        for sfx in ["x", "ish", "1", "_", "_count", "s", "X", "0a"] {
            v.push(format!("{}{}", w, sfx));
        }
        for pfx in ["x", "_", "a_", "my"] {
            v.push(format!("{}{}", pfx, w));
        }
        v.push(format!("{}{}", w, w));
        v.push(w.to_uppercase());
    }
    for w in ["android", "iffy", "order", "nothing", "dots", "done", "doe", "elsewhere", "thenceforth", "nullable", "trueish", "null_count", "falsey", "oracle", "andy", "notes", "returned", "outputs", "viaduct", "intoxicated", "whereas", "information", "infinite", "e", "pi", "xx", "_", "__", "a1", "A", "Zz_9"] {
        v.push(w.to_string());
    }
    v
}

/// pipelines whose operand is an unparenthesised lambda, continued on the next line with and
/// without an end-of-line comment after the lambda body
fn lambda_pipeline_layouts() -> Vec<Case> {
    let mut v = Vec::new();
    let ops = ["via", "into", "where"];
    let rhs = |op: &str| match op {
        "into" => "len",
        "where" => "y => y != 2",
        _ => "y => y + 1",
    };
    for op1 in ops {
        for op2 in ops {
            for body in ["x * 2", "x > 1", "[x, x]", "x"] {
                for head in ["", "r = ", "output r = "] {
                    let left = if op1 == "into" { "[1, 2, 3]" } else { "[1, 2, 3]" };
                    let canonical = format!("{}({} {} (x => {})) {} ({})", head, left, op1, body, op2, rhs(op2));
                    for sep in [" ", "\n  ", " // c\n  ", " // c\n", "\n", " // via x\n  ", "  //\n\t"] {
                        for paren_rhs in [false, true] {
                            let r = if paren_rhs { format!("({})", rhs(op2)) } else { rhs(op2).to_string() };
                            v.push(Case::Text { canonical: canonical.clone(), varied: format!("{}{} {} x => {}{}{} {}", head, left, op1, body, sep, op2, r) });
                            v.push(Case::Text { canonical: canonical.clone(), varied: format!("{}{} {} (x) => {}{}{} {}", head, left, op1, body, sep, op2, r) });
                        }
                    }
                }
            }
        }
    }
    v
}

/// blanks, tabs and line breaks inside parameter lists (around `?`, after `...`, around commas
/// and parentheses)
fn parameter_list_layouts() -> Vec<Case> {
    let mut v = Vec::new();
    let pairs: &[(&str, &[&str])] = &[
        ("f = (x?) => x ?? 7", &["f = x? => x ?? 7", "f = x ? => x ?? 7", "f = (x ?) => x ?? 7", "f = ( x? ) => x ?? 7", "f = x\t? => x ?? 7", "f = (x  ?)=>x ?? 7"]),
        ("f = (a, b?) => b", &["f = (a, b ?) => b", "f = (a , b?) => b", "f = ( a,b ? ) => b", "f = (a,\n  b ?) => b", "f = (a, b?,\n) => b"]),
        ("f = (...rest) => rest", &["f = ...rest => rest", "f = ... rest => rest", "f = (... rest) => rest", "f = ( ...rest ) => rest", "f = (...\trest) => rest"]),
        ("f = (a, b?, ...r) => [a, b, r]", &["f = ( a , b ? , ... r ) => [a, b, r]", "f = (a,b?,...r)=>[a, b, r]", "f = (\n  a,\n  b ?,\n  ... r\n) => [a, b, r]"]),
        ("g = [1] via ((x, i?) => i)", &["g = [1] via ((x, i ?) => i)", "g = [1] via (( x , i ? ) => i)"]),
    ];
    for (canonical, variants) in pairs {
        for varied in variants.iter() {
            v.push(Case::Text { canonical: canonical.to_string(), varied: varied.to_string() });
        }
    }
    v
}

/// comments at the positions where the grammar records them for the formatter (after list items and
/// record entries, on lines of their own inside brackets and do-blocks, at the end of a do-block
/// statement, after a statement; the pinned grammar admits none after `return`'s expression): the program that is evaluated is the
/// one without the comments
fn comment_position_layouts() -> Vec<Case> {
    let mut v = Vec::new();
    let pairs: &[(&str, &[&str])] = &[
        ("f = x => do {\n  y = x * 2\n  return y\n}", &[
            "f = x => do {\n  y = x * 2 // double it\n  return y\n}",
            "f = x => do {\n  y = x * 2  //\n  return y\n}",
            "f = x => do {\n  // first\n  y = x * 2\n  return y\n}",
            "f = x => do {\n  y = x * 2\n  // before return\n  return y\n}",
            "f = x => do { // opening\n  y = x * 2 // a\n  // b\n  return y\n}",
            "f = x => do {\n  y = x * 2 // a // b\n\n  return y\n}",
        ]),
        ("g = do {\n  a = 1\n  b = [a, 2]\n  return {a, b}\n}", &[
            "g = do {\n  a = 1 // one\n  b = [a, 2] // two\n  return {a, b}\n}",
            "g = do {\n  a = 1 // one\n  b = [\n    a, // item\n    2 // last\n  ] // two\n  return {a, b}\n}",
        ]),
        ("l = [1, 2, 3]", &[
            "l = [1, // one\n 2, 3]",
            "l = [\n  1, // one\n  2, // two\n  3 // three\n]",
            "l = [\n  // lead\n  1,\n  // mid\n  2,\n  3\n  // tail\n]",
            "l = [1, 2, 3] // after",
        ]),
        ("r = {a: 1, \"b c\": [2], ...q}", &[
            "r = {\n  a: 1, // one\n  \"b c\": [2], // two\n  ...q // spread\n}",
            "r = {\n  // lead\n  a: 1,\n  \"b c\": [\n    2 // inner\n  ],\n  ...q,\n  // tail\n}",
            "r = {a: 1, \"b c\": [2], ...q} // after",
        ]),
        ("h = (a, b) => [a, do {\n  c = b\n  return c\n}]", &[
            "h = (a, b) => [a, // first\n do {\n  c = b // copy\n  return c\n}]",
        ]),
        ("output k = [1, 2]", &["output k = [\n  1, // one\n  2\n] // done"]),
    ];
    for (canonical, variants) in pairs {
        for varied in variants.iter() {
            v.push(Case::Text { canonical: canonical.to_string(), varied: varied.to_string() });
        }
    }
    v
}

pub fn run(ctx: &mut Ctx) {
    ctx.run_enum(&Parsing, comment_position_layouts().into_iter(), false);
    ctx.run_enum(&Parsing, lambda_pipeline_layouts().into_iter(), false);
    ctx.run_enum(&Parsing, parameter_list_layouts().into_iter(), false);
    ctx.run_enum(&Parsing, enumerated_trees().into_iter().map(Case::Tree), true);
    ctx.run_enum(&Parsing, names().into_iter().map(Case::Name), true);
    let tape = || prop::collection::vec(any::<u16>(), 0..200);
    ctx.run_random(
        &Parsing,
        tape().prop_map(|t| Case::Tree(expr::syntactic(&mut Tape::new(&t), 7))),
        ctx.tier.pick(30_000, 800_000),
    );
    ctx.run_random(
        &Parsing,
        (tape(), prop::collection::vec(any::<u16>(), 0..300), any::<bool>()).prop_map(|(t, l, crlf)| Case::Layout {
            prog: expr::syntactic_program(&mut Tape::new(&t), 4, 4),
            tape: l,
            crlf,
        }),
        ctx.tier.pick(30_000, 800_000),
    );
    ctx.run_random(&Parsing, tape().prop_map(|t| Case::Spelling(bool_expr(&mut Tape::new(&t), 4))), ctx.tier.pick(10_000, 200_000));
    ctx.run_random(
        &Parsing,
        "[a-zA-Z_][a-zA-Z0-9_]{0,8}".prop_filter_map("reserved", |n: String| {
            let reserved = crate::model::mv::RESERVED;
            if reserved.contains(&n.as_str())
                || blots_core::functions::is_built_in_function(&n)
                || ["inputs", "constants", "inf", "infinity", "via", "into", "where", "idf", "t", "q", "a", "k", "x"].contains(&n.as_str())
            {
                None
            } else {
                Some(Case::Name(n))
            }
        }),
        ctx.tier.pick(3_000, 60_000),
    );
}
