//! Property registry: one module per property.

use crate::engine::Ctx;

pub mod c01;
pub mod c02;
pub mod c03;
pub mod c04;
pub mod c05;
pub mod c06;
pub mod c07;
pub mod c08;
pub mod c09;
pub mod c10;
pub mod c11;
pub mod c12;
pub mod c13;
pub mod c14;
pub mod c15;
pub mod c16;
pub mod c17;
pub mod c18;
pub mod c19;
pub mod c20;
pub mod fmt;

pub const ALL: &[&str] = &["C01", "C02", "C03", "C04", "C05", "C06", "C07", "C08", "C09", "C10", "C11", "C12", "C13", "C14", "C15", "C16", "C17", "C18", "C19", "C20"];

pub fn exists(p: &str) -> bool {
    ALL.contains(&p)
}

pub fn run(p: &str, ctx: &mut Ctx) {
    match p {
        "C01" => c01::run(ctx),
        "C02" => c02::run(ctx),
        "C03" => c03::run(ctx),
        "C04" => c04::run(ctx),
        "C05" => c05::run(ctx),
        "C06" => c06::run(ctx),
        "C07" => c07::run(ctx),
        "C08" => c08::run(ctx),
        "C09" => c09::run(ctx),
        "C10" => c10::run(ctx),
        "C11" => c11::run(ctx),
        "C12" => c12::run(ctx),
        "C13" => c13::run(ctx),
        "C14" => c14::run(ctx),
        "C15" => c15::run(ctx),
        "C16" => c16::run(ctx),
        "C17" => c17::run(ctx),
        "C18" => c18::run(ctx),
        "C19" => c19::run(ctx),
        "C20" => c20::run(ctx),
        _ => panic!("unknown property {}", p),
    }
}

/// (non-triviality rule, assumptions)
pub fn meta(p: &str) -> (String, Vec<String>) {
    let (r, a): (&str, &[&str]) = match p {
        "C01" => (c01::RULE, c01::ASSUMPTIONS),
        "C02" => (c02::RULE, c02::ASSUMPTIONS),
        "C03" => (c03::RULE, c03::ASSUMPTIONS),
        "C04" => (c04::RULE, c04::ASSUMPTIONS),
        "C05" => (c05::RULE, c05::ASSUMPTIONS),
        "C06" => (c06::RULE, c06::ASSUMPTIONS),
        "C07" => (c07::RULE, c07::ASSUMPTIONS),
        "C08" => (c08::RULE, c08::ASSUMPTIONS),
        "C09" => (c09::RULE, c09::ASSUMPTIONS),
        "C10" => (c10::RULE, c10::ASSUMPTIONS),
        "C11" => (c11::RULE, c11::ASSUMPTIONS),
        "C12" => (c12::RULE, c12::ASSUMPTIONS),
        "C13" => (c13::RULE, c13::ASSUMPTIONS),
        "C14" => (c14::RULE, c14::ASSUMPTIONS),
        "C15" => (c15::RULE, c15::ASSUMPTIONS),
        "C16" => (c16::RULE, c16::ASSUMPTIONS),
        "C17" => (c17::RULE, c17::ASSUMPTIONS),
        "C18" => (c18::RULE, c18::ASSUMPTIONS),
        "C19" => (c19::RULE, c19::ASSUMPTIONS),
        "C20" => (c20::RULE, c20::ASSUMPTIONS),
        _ => ("", &[]),
    };
    (r.to_string(), a.iter().map(|s| s.to_string()).collect())
}

pub fn default_shards(_p: &str) -> usize {
    std::thread::available_parallelism().map(|n| n.get()).unwrap_or(8).min(16)
}
