//! C04 — closures capture definition-time values; calls are call-site independent; arity.

use crate::blots::{Obs, Sess};
use crate::engine::{Check, Ctx, Outcome, hash_str};
use crate::fail;
use crate::gen_::expr::{E, Tape, print_min};
use crate::gen_::typed::{self, Scope, Ty};
use crate::model::MV;
use crate::model::mv::num;
use proptest::prelude::*;
use serde::{Deserialize, Serialize};

pub const RULE: &str = "(a) call-site independence: definitions binding k and m (numbers, lists, closures), a function f all of whose free names are bound at its definition (plain, optional parameter, curried, defined inside a do-block, capturing another closure, parameters that reuse captured names, a parameter named like the function itself or `inputs`, record shorthand, a do-block in the middle of the body that rebinds a captured name which is read after it, functions re-entered while on the stack - directly, through a capture-free helper or a map callback - with frames in between that bind a captured name; closures over k bound to a local that is itself called k, parameters named inf / infinity / constants, a body reading `inputs`; the designed forms also carry the value the call must have), and a call f(args); the call is evaluated right after the definition and again inside every context of a grammar: IIFE whose parameters are named k / m / f's helpers, do-block shadowing k and m, callbacks of via / map / reduce / where / filter / sort_by whose parameters shadow, two- and three-deep call chains reusing the names, after failed redefinition attempts of k and m, with and without `inputs` carrying k and m. (b) arity: every parameter list with r required, o optional (r+o <= 4) and an optional rest parameter x argument counts 0..n+3, direct and through spread, against a positional binding model. Non-trivial = f captures at least one name and the context rebinds that name to a different value; distinct by (program, context).";
pub const ASSUMPTIONS: &[&str] = &[
    "results are compared as values; failures are compared by status",
    "contexts come from a fixed grammar of context kinds",
];

#[derive(Clone, Debug, Serialize, Deserialize)]
pub enum Case {
    Site {
        /// definition statements, in order (bind k, m, helpers, f)
        defs: Vec<String>,
        /// call expression text, e.g. `f(3)`
        call: String,
        junk1: MV,
        junk2: MV,
        captures: bool,
        /// for designed forms: an expression over k / m whose top-level value the call must have
        #[serde(default)]
        expect: Option<String>,
    },
    Arity {
        r: u8,
        o: u8,
        rest: bool,
        n: u8,
        spread: bool,
    },
}

pub struct Closures;

fn status(o: &Obs) -> &'static str {
    if o.is_ok() { "ok" } else { "err" }
}

fn same(a: &Obs, b: &Obs) -> bool {
    match (a, b) {
        (Ok(MV::Fn(_)), Ok(MV::Fn(_))) => true,
        (Ok(x), Ok(y)) => x.same_nanclass(y),
        (Err(_), Err(_)) => true,
        _ => false,
    }
}

/// (name, setup statements, expression, how the reference value is wrapped)
fn contexts(call: &str, j1: &str, j2: &str) -> Vec<(&'static str, Vec<String>, String, u8)> {
    let c = call;
    vec![
        ("direct-again", vec![], c.to_string(), 0),
        ("iife-shadowing-params", vec![], format!("((k, m) => {})({}, {})", c, j1, j2), 0),
        ("iife-shadowing-inputs", vec![], format!("((inputs, f1) => {})({}, {})", c, j1, j2), 0),
        ("iife-shadowing-helpers", vec![], format!("((g, mk, loc, a) => {})({}, {}, {}, {})", c, j1, j2, j1, j2), 0),
        ("iife-param-named-f", vec![], format!("((x, y) => {})({}, {})", c, j1, j2), 0),
        // the caller's parameters / locals carry the names the callee binds inside its own body
        ("iife-shadowing-body-locals", vec![], format!("((tq, rq, cq, ks, kf, e, pi, kfw) => {})({}, {}, {}, {}, {}, {}, {}, {})", c, j1, j2, j1, j2, j1, j2, j1, j2), 0),
        ("do-block-shadowing-body-locals", vec![], format!("do {{\n  tq = {}\n  rq = {}\n  cq = {}\n  kf = {}\n  e = {}\n  pi = {}\n  kfw = {}\n  return {}\n}}", j1, j2, j1, j2, j1, j2, j1, c), 0),
        ("do-block-shadowing", vec![], format!("do {{\n  k = {}\n  m = {}\n  g = {}\n  return {}\n}}", j1, j2, j1, c), 0),
        ("via-callback", vec![], format!("[{}] via (k => {})", j1, c), 1),
        ("via-callback-index", vec![], format!("[{}] via ((m, k) => {})", j1, c), 1),
        ("map-callback", vec![], format!("map([{}], (k, m) => {})", j1, c), 1),
        ("reduce-callback", vec![], format!("reduce([{}], (k, m) => {}, {})", j1, c, j2), 0),
        ("where-callback", vec![], format!("[7] where (k => ({}) .== ({}))", c, c), 2),
        ("filter-callback", vec![], format!("filter([7], m => ({}) .== ({}))", c, c), 2),
        ("sort_by-callback", vec![], format!("sort_by([2, 1], k => if ({}) .== ({}) then 0 else k)", c, c), 3),
        ("call-chain-2", vec![format!("h1 = k => {}", c)], format!("h1({})", j1), 0),
        ("call-chain-3", vec![format!("h1 = (k, m) => {}", c), "h2 = (m, k) => h1(k, m)".into(), "h3 = k => h2(k, k)".into()], format!("h3({})", j1), 0),
        ("nested-lambda", vec![], format!("((k) => ((m) => {})({}))({})", c, j2, j1), 0),
        ("into-operator", vec![], format!("{} into (k => {})", j1, c), 0),
        // aliases of f under the names it captured / uses
        ("alias-in-do-block", vec![], format!("do {{\n  k = f\n  m = f\n  g = f\n  return {}\n}}", c), 0),
        ("alias-at-top-level", vec!["alias_one = f".into(), "alias_two = alias_one".into()], c.to_string(), 0),
        ("alias-as-argument", vec![], format!("((k, m, g) => {})(f, f, f)", c), 0),
        ("call-through-alias", vec!["alias_three = f".into()], c.replacen("f(", "alias_three(", 1), 0),
    ]
    .into_iter()
    .chain(if c.starts_with("f(") {
        // f handed over by value to a caller whose own parameter is called f
        vec![
            ("by-value-under-own-name", vec![], format!("((h0, f) => {})(f, {})", c.replacen("f(", "h0(", 1), j1), 0),
            ("by-value-under-own-name-via", vec![], format!("([f] via ((h0, f) => {}))[0]", c.replacen("f(", "h0(", 1)), 0),
        ]
    } else {
        vec![]
    })
    .collect()
}

impl Check for Closures {
    type Case = Case;
    fn name(&self) -> &'static str {
        "closures"
    }
    fn journal(&self) -> bool {
        true
    }
    fn run(&self, c: &Case, ctx: &mut Ctx) -> Outcome {
        match c {
            Case::Site { defs, call, junk1, junk2, captures, expect } => {
                let build = |with_inputs: bool, redefine: bool| -> Result<Sess, String> {
                    let sess = Sess::new();
                    if with_inputs {
                        sess.set_inputs(&[("k".into(), junk1.clone()), ("m".into(), junk2.clone()), ("f".into(), junk1.clone())]);
                    } else {
                        // as in the CLI, `inputs` is always bound (to an empty record without inputs)
                        sess.set_inputs(&[]);
                    }
                    for d in defs {
                        sess.eval_src(d)?;
                    }
                    if redefine {
                        // redefinition attempts must fail and change nothing
                        for name in ["k", "m", "f"] {
                            let _ = sess.eval_src(&format!("{} = {}", name, junk1.to_source(false)));
                        }
                    }
                    Ok(sess)
                };
                let sess = match build(false, false) {
                    Ok(s) => s,
                    Err(_) => {
                        ctx.discard();
                        return Ok(());
                    }
                };
                let reference = sess.obs(call);
                ctx.label(if reference.is_ok() { "reference-ok" } else { "reference-err" });
                if let Some(exp) = expect {
                    // designed forms: what the call must return follows from the captured values alone
                    ctx.label("designed-expectation");
                    let want = sess.obs(exp);
                    if !same(&reference, &want) {
                        fail!(
                            format!("site:designed:{}/{}", status(&want), status(&reference)),
                            "after\n{}\nthe call `{}` gives {:?}; with the captured values it must equal `{}` = {:?}",
                            defs.join("\n"),
                            call,
                            reference,
                            exp,
                            want
                        );
                    }
                }
                if *captures {
                    ctx.nontrivial(hash_str(&format!("{:?}{}", defs, call)));
                }
                let (j1, j2) = (junk1.to_source(true), junk2.to_source(true));
                for (name, setup, expr_src, wrap) in contexts(call, &j1, &j2) {
                    for (variant, with_inputs, redefine) in [("plain", false, false), ("inputs", true, false), ("redefine", false, true)] {
                        if variant != "plain" && !(name == "direct-again" || name == "iife-shadowing-params" || name == "iife-shadowing-inputs" || name == "call-chain-2") {
                            continue;
                        }
                        let s = match build(with_inputs, redefine) {
                            Ok(s) => s,
                            Err(e) => fail!(format!("site:setup:{}", variant), "definitions fail with {}: {}", variant, e),
                        };
                        let mut setup_ok = true;
                        for st in &setup {
                            if s.eval_src(st).is_err() {
                                setup_ok = false;
                            }
                        }
                        if !setup_ok {
                            continue;
                        }
                        let got = s.obs(&expr_src);
                        let want: Obs = match (wrap, &reference) {
                            (0, r) => r.clone(),
                            (1, Ok(v)) => Ok(MV::List(vec![v.clone()])),
                            (2, Ok(_)) => Ok(MV::List(vec![num(7.0)])),
                            (3, Ok(_)) => Ok(MV::List(vec![num(2.0), num(1.0)])),
                            (_, Err(e)) => Err(e.clone()),
                            _ => unreachable!(),
                        };
                        // a call that fails inside sort_by's key function is swallowed by sort_by
                        if wrap == 3 && reference.is_err() {
                            continue;
                        }
                        // .== on function results compares structure only: skip wrap 2 when the reference is a function
                        if wrap == 2 && matches!(reference, Ok(MV::Fn(_))) {
                            continue;
                        }
                        // NaN is not .== to itself
                        if (wrap == 2 || wrap == 3) && matches!(&reference, Ok(v) if v.has_nan()) {
                            continue;
                        }
                        ctx.extra_evals(1);
                        if !same(&got, &want) {
                            fail!(
                                format!("site:{}:{}:{}/{}", name, variant, status(&want), status(&got)),
                                "after\n{}\nthe call `{}` gives {:?} at top level, but in context {} ({}) `{}` gives {:?}",
                                defs.join("\n"),
                                call,
                                reference,
                                name,
                                variant,
                                expr_src,
                                got
                            );
                        }
                    }
                }
                Ok(())
            }
            Case::Arity { r, o, rest, n, spread } => {
                ctx.label("arity");
                ctx.nontrivial(hash_str(&format!("{:?}", c)));
                let (r, o, n) = (*r as usize, *o as usize, *n as usize);
                let mut params = Vec::new();
                let mut names = Vec::new();
                for i in 0..r {
                    params.push(format!("p{}", i));
                    names.push(format!("p{}", i));
                }
                for i in 0..o {
                    params.push(format!("q{}?", i));
                    names.push(format!("q{}", i));
                }
                if *rest {
                    params.push("...rs".into());
                    names.push("rs".into());
                }
                let args: Vec<String> = (0..n).map(|i| format!("{}", (i + 1) * 10)).collect();
                let call_args = if *spread { format!("...[{}]", args.join(", ")) } else { args.join(", ") };
                let src = format!("(({}) => [{}])({})", params.join(", "), names.join(", "), call_args);
                let sess = Sess::new();
                let got = sess.obs(&src);
                let ok_count = n >= r && (*rest || n <= r + o);
                let want: Obs = if ok_count {
                    let mut v: Vec<MV> = Vec::new();
                    for i in 0..r {
                        v.push(num(((i + 1) * 10) as f64));
                    }
                    for i in 0..o {
                        v.push(if r + i < n { num(((r + i + 1) * 10) as f64) } else { MV::Null });
                    }
                    if *rest {
                        v.push(MV::List((r + o..n).map(|i| num(((i + 1) * 10) as f64)).collect()));
                    }
                    Ok(MV::List(v))
                } else {
                    Err("arity error".into())
                };
                if !same(&got, &want) {
                    fail!(
                        format!("arity:r{}o{}rest{}:n{}:{}", r, o, *rest as u8, n, if *spread { "spread" } else { "direct" }),
                        "`{}` gave {:?}, the positional binding model gives {:?}",
                        src,
                        got,
                        want
                    );
                }
                // the same parameter list as a callback: the higher-order forms hand over
                // (element, index) when the function accepts two arguments, else the element alone,
                // and a function that accepts neither count is an error in every form
                if n == 1 && !*spread {
                    let accepts = |k: usize| k >= r && (*rest || k <= r + o);
                    let given = if accepts(2) { Some(2) } else if accepts(1) { Some(1) } else { None };
                    let fsrc = format!("(({}) => [{}])", params.join(", "), names.join(", "));
                    let psrc = format!("(({}) => true)", params.join(", "));
                    let want_cb: Obs = match given {
                        None => Err("arity error".into()),
                        Some(k) => {
                            let argv = [num(10.0), num(0.0)];
                            let mut v: Vec<MV> = Vec::new();
                            for i in 0..r {
                                v.push(argv[i].clone());
                            }
                            for i in 0..o {
                                v.push(if r + i < k { argv[r + i].clone() } else { MV::Null });
                            }
                            if *rest {
                                v.push(MV::List((r + o..k).map(|i| argv[i].clone()).collect()));
                            }
                            Ok(MV::List(vec![MV::List(v)]))
                        }
                    };
                    for form in [format!("[10] via {}", fsrc), format!("map([10], {})", fsrc)] {
                        let got = sess.obs(&form);
                        if !same(&got, &want_cb) {
                            fail!(format!("arity-callback:r{}o{}rest{}:{}", r, o, *rest as u8, if form.starts_with("map") { "map" } else { "via" }), "`{}` gave {:?}, the callback protocol gives {:?}", form, got, want_cb);
                        }
                    }
                    let want_pred: Obs = if given.is_some() { Ok(MV::List(vec![num(10.0)])) } else { Err("arity error".into()) };
                    for form in [format!("[10] where {}", psrc), format!("filter([10], {})", psrc)] {
                        let got = sess.obs(&form);
                        if !same(&got, &want_pred) {
                            fail!(format!("arity-callback:r{}o{}rest{}:{}", r, o, *rest as u8, if form.starts_with("filter") { "filter" } else { "where" }), "`{}` gave {:?}, expected {:?}", form, got, want_pred);
                        }
                    }
                    let want_q: Obs = if given.is_some() { Ok(MV::Bool(true)) } else { Err("arity error".into()) };
                    for form in [format!("every([10], {})", psrc), format!("some([10], {})", psrc)] {
                        let got = sess.obs(&form);
                        if !same(&got, &want_q) {
                            fail!(format!("arity-callback:r{}o{}rest{}:{}", r, o, *rest as u8, &form[..5]), "`{}` gave {:?}, expected {:?}", form, got, want_q);
                        }
                    }
                }
                Ok(())
            }
        }
    }
}

fn site_case(tape: &[u16], j1: MV, j2: MV) -> Case {
    let mut t = Tape::new(tape);
    let mut sc = Scope::default();
    let mut defs: Vec<String> = Vec::new();
    // k: number; m: number, list or closure
    let kval = typed::gen_e(&mut t, &Scope::default(), Ty::N, 1);
    defs.push(format!("k = {}", print_min(&kval)));
    sc.nums.push("k".into());
    match t.pick(4) {
        3 => {
            // a name for a built-in function value
            defs.push(format!("m = {}", ["abs", "floor", "max", "min", "round"][t.pick(5)]));
            sc.fns.push("m".into());
        }
        0 => {
            let v = typed::gen_e(&mut t, &sc, Ty::N, 2);
            defs.push(format!("m = {}", print_min(&v)));
            sc.nums.push("m".into());
        }
        1 => {
            defs.push("m = [4, 5, k]".into());
            sc.lists.push("m".into());
        }
        _ => {
            defs.push("m = z => z * k + 1".into());
            sc.fns.push("m".into());
        }
    }
    let form = t.pick(34);
    let mut expect: Option<String> = None;
    let mut body_scope = sc.clone();
    let mut call = "f(3)".to_string();
    let captures = true;
    let body = |t: &mut Tape, s: &Scope| -> E { typed::gen_e(t, s, Ty::N, 3) };
    match form {
        0 => {
            body_scope.nums.push("x".into());
            let b = body(&mut t, &body_scope);
            defs.push(format!("f = x => k + ({})", print_min(&b)));
        }
        1 => {
            body_scope.nums.push("x".into());
            let b = body(&mut t, &body_scope);
            defs.push(format!("f = (x, y?) => [k, y, {}]", print_min(&b)));
            call = if t.pick(2) == 0 { "f(3)".into() } else { "f(3, 4)".into() };
        }
        2 => {
            body_scope.nums.push("x".into());
            body_scope.nums.push("a".into());
            let b = body(&mut t, &body_scope);
            defs.push(format!("mk = a => (x => a + k + ({}))", print_min(&b)));
            defs.push("f = mk(2)".into());
        }
        3 => {
            body_scope.nums.push("x".into());
            body_scope.nums.push("loc".into());
            let b = body(&mut t, &body_scope);
            defs.push(format!("f = do {{\n  loc = k * 2\n  return x => loc + ({})\n}}", print_min(&b)));
        }
        4 => {
            body_scope.nums.push("x".into());
            let b = body(&mut t, &body_scope);
            defs.push("g = x => x * k".into());
            defs.push(format!("f = x => g(x) + ({})", print_min(&b)));
        }
        5 => {
            // parameter named like a captured name
            let mut s2 = sc.clone();
            s2.nums.retain(|n| n != "k");
            s2.nums.push("k".into());
            let b = body(&mut t, &s2);
            defs.push(format!("f = k => k * 100 + ({})", print_min(&b)));
        }
        6 => {
            // a parameter that carries the function's own name is the argument, not the function
            defs.push(["f = f => [f, k]", "f = (a?, f?) => [f ?? a, k]", "f = (...f) => [f[0], k]"][t.pick(3)].into());
            expect = Some("[3, k]".into());
        }
        7 => {
            defs.push("f = inputs => [inputs, k]".into());
            expect = Some("[3, k]".into());
        }
        8 => {
            // record shorthand and do-block rebinding of a captured name
            defs.push("f = x => do {\n  k = k + x\n  return {k, x}\n}".into());
        }
        9 => {
            // a do-block that is not the last thing in the body rebinds a captured name; the name is read after it
            body_scope.nums.push("x".into());
            let b = body(&mut t, &body_scope);
            defs.push(format!("f = x => [do {{\n  k = x * 2\n  return k\n}}, k, {}]", print_min(&b)));
            expect = Some(format!("[6, k, (x => ({}))(3)]", print_min(&b)));
        }
        10 => {
            defs.push("f = x => (if x > 0 then do {\n  k = x\n  return k\n} else 0) + k * 1000".into());
            expect = Some("3 + k * 1000".into());
        }
        11 => {
            // re-entered while on the stack, with a do-local named like a captured name in between
            defs.push("f = n => do {\n  seen = k\n  k = n * 100\n  return if n == 0 then [seen] else [seen, ...f(n - 1)]\n}".into());
            call = "f(2)".into();
            expect = Some("[k, k, k]".into());
        }
        12 => {
            // re-entered through a capture-free helper whose parameter is named like a captured name
            defs.push("apply = (h, k) => h(0)".into());
            defs.push("f = n => if n == 0 then k else apply(f, 99)".into());
            call = "f(1)".into();
            expect = Some("k".into());
        }
        14 => {
            // a closure over k is bound to a do-block local that is also called k
            defs.push("mk = () => (x => x + k)".into());
            defs.push("f = x => do {\n  k = mk()\n  return k(x)\n}".into());
            expect = Some("3 + k".into());
        }
        15 => {
            // an anonymous closure over k handed to a helper that binds it to its own local k
            defs.push("apply = h => do {\n  k = h\n  return k(1)\n}".into());
            defs.push("f = x => apply(y => k + y + x)".into());
            expect = Some("k + 1 + 3".into());
        }
        16 => {
            defs.push("f = x => do {\n  k = y => k + y\n  return k(x)\n}".into());
            expect = Some("k + 3".into());
        }
        17 => {
            // reads the inputs record it was defined under
            defs.push("f = x => [k, typeof(inputs), x]".into());
            expect = Some("[k, \"record\", 3]".into());
        }
        18 => {
            // parameters named like the built-in constants
            defs.push(["f = inf => [inf, k]", "f = infinity => [infinity, k]", "f = (a, inf?) => [a, inf, k]", "f = constants => [constants, k]", "f = sum => [sum, k]", "f = len => [len, k]", "f = map => [map, k]"][t.pick(7)].into());
            expect = Some(if defs.last().unwrap().contains("(a, inf?)") { "[3, null, k]".into() } else { "[3, k]".into() });
        }
        19 => {
            // closures made one after the other from the same expression, capturing 0 and -0 (equal, not identical)
            defs.push("mk = z => (x => x / z)".into());
            defs.push(["f = x => (([0, -0] via mk) via (g => g(x)))", "f = x => ([mk(0), mk(-0)] via (g => g(x)))", "f = x => (map([-0, 0, -0], mk) via (g => g(x)))"][t.pick(3)].into());
            expect = Some(if defs.last().unwrap().contains("[-0, 0, -0]") { "[3 / -0, 3 / 0, 3 / -0]".into() } else { "[3 / 0, 3 / -0]".into() });
        }
        20 => {
            // ... and capturing equal strings / lists held in different heap cells
            defs.push("mk = z => (x => [z, x])".into());
            defs.push("f = x => (([\"a\" + \"b\", \"ab\", [1], [1]] via mk) via (g => g(x)))".into());
            expect = Some("[[\"ab\", 3], [\"ab\", 3], [[1], 3], [[1], 3]]".into());
        }
        22 => {
            // a captured name that denotes a built-in function value
            defs.push(["bi = max", "bi = min", "bi = sum"][t.pick(3)].into());
            defs.push("f = x => [bi(x, k, 1), k]".into());
            defs.push("hq = (bi, x) => f(x)".into());
            call = ["hq(min, 3)", "hq(x => 0, 3)", "([3] via (bi => f(bi)))", "do {\n  bi = avg\n  return f(3)\n}"][t.pick(4)].into();
            let b = defs[defs.len() - 3].trim_start_matches("bi = ").to_string();
            expect = Some(if call.starts_with("([") { format!("[[{}(3, k, 1), k]]", b) } else { format!("[{}(3, k, 1), k]", b) });
        }
        23 => {
            // ... received as a parameter / bound as a do-block local, used after that scope has ended
            defs.push(["make = pick => (x => [pick(x, k), k])", "make = pick => do {\n  chosen = pick\n  return x => [chosen(x, k), k]\n}"][t.pick(2)].into());
            defs.push(["f = make(max)", "f = make(min)"][t.pick(2)].into());
            let b = if defs.last().unwrap().contains("max") { "max" } else { "min" };
            expect = Some(format!("[{}(3, k), k]", b));
        }
        25 => {
            // a captured name that is only read on the right-hand side of an assignment expression
            let v = t.pick(3);
            defs.push(["f = x => (tq = x * k) + tq", "f = x => [tq = x * k, tq][1] * 2", "f = x => do {\n  y = (tq = x * k) + 0\n  return y + tq\n}"][v].into());
            expect = Some(["3 * k + 3 * k", "3 * k * 2", "(3 * k + 0) + 3 * k"][v].into());
        }
        26 => {
            defs.push(["f = x => do {\n  return rq = x * k\n}", "f = x => (y => (rq = y * k))(x)", "f = x => if typeof([cq = k]) == \"list\" then x * cq else 0"][t.pick(3)].into());
            expect = Some("3 * k".into());
        }
        27 => {
            // a function that binds a name in its own body and calls itself: every activation has its own
            let v = t.pick(2);
            defs.push(["f = n => if n == 0 then k else (tq = n) + f(n - 1) + tq * 0", "f = n => if n == 0 then k else [tq = n, f(n - 1)][1] + tq"][v].into());
            expect = Some(["((3 + ((2 + ((1 + k) + 0)) + 0)) + 0)", "k + 1 + 2 + 3"][v].into());
        }
        28 => {
            // the self-call comes before the captured name in the body
            defs.push(["f = n => if n > 0 then f(n - 1) + k else 0", "f = n => if n > 0 then [f(n - 1), k][0] + k else 0"][t.pick(2)].into());
            call = "f(2)".into();
            expect = Some("0 + k + k".into());
        }
        29 => {
            // a helper that is defined after its user comes before the captured name
            defs.push("f = x => later(x) + k".into());
            defs.push("later = y => y * 2".into());
            expect = Some("6 + k".into());
        }
        30 => {
            // a captured name that is only read inside a computed record key
            defs.push("ks = \"key\" + \"!\"".into());
            defs.push(["f = x => {[ks]: x}", "f = x => keys({[ks + \"b\"]: x, a: 1})", "f = x => (y => {[ks]: y})(x)"][t.pick(3)].into());
            expect = Some(match defs.last().unwrap().as_str() {
                "f = x => keys({[ks + \"b\"]: x, a: 1})" => "[\"key!b\", \"a\"]",
                _ => "{\"key!\": 3}",
            }.into());
        }
        31 => {
            // a captured name that is only read under a postfix / prefix operator
            defs.push("kf = 3".into());
            defs.push(["f = x => kf! + x", "f = x => [-kf, not (kf == 3), kf!][2] + x", "f = x => (y => y + kf!)(x)"][t.pick(3)].into());
            expect = Some("6 + 3".into());
        }
        32 => {
            // captured names spelled like members of `constants`
            defs.push("e = 10".into());
            defs.push("pi = 20".into());
            defs.push(["f = x => x + e + pi", "f = x => [e, pi, x]", "f = x => (y => y + e)(x) + pi"][t.pick(3)].into());
            expect = Some(match defs.last().unwrap().as_str() {
                "f = x => [e, pi, x]" => "[10, 20, 3]",
                "f = x => x + e + pi" => "3 + 10 + 20",
                _ => "(3 + 10) + 20",
            }.into());
        }
        33 => {
            // a closure made inside a call captures a name that was bound after its maker was defined
            defs.push("mk2 = () => (x => x + kfw)".into());
            defs.push("kfw = 5".into());
            defs.push("f = mk2()".into());
            expect = Some("3 + 5".into());
        }
        24 => {
            // ... and one nested inside a captured list / record
            defs.push("tools = [max, {pick: min}]".into());
            defs.push("f = x => [tools[0](x, k), tools[1].pick(x, k)]".into());
            defs.push("hq = (tools, x) => f(x)".into());
            call = "hq([min, {pick: max}], 3)".into();
            expect = Some("[max(3, k), min(3, k)]".into());
        }
        _ => {
            // re-entered through a callback of map, inside a function whose parameter shadows
            defs.push("each = (k, h) => map([0], h)[0]".into());
            defs.push("f = n => if n == 0 then k * 2 else each(n * 1000, f)".into());
            call = "f(5)".into();
            expect = Some("k * 2".into());
        }
    }
    Case::Site {
        defs,
        call,
        junk1: j1,
        junk2: j2,
        captures,
        expect,
    }
}

pub fn run(ctx: &mut Ctx) {
    let mut ar = Vec::new();
    for r in 0..=4u8 {
        for o in 0..=(4 - r) {
            for rest in [false, true] {
                let total = r + o;
                for n in 0..=(total + 3) {
                    for spread in [false, true] {
                        ar.push(Case::Arity { r, o, rest, n, spread });
                    }
                }
            }
        }
    }
    ctx.run_enum(&Closures, ar.into_iter(), true);
    let junk = || prop_oneof![Just(num(111.0)), Just(num(-7.0)), Just(MV::Str("junk".into())), Just(MV::List(vec![num(9.0)])), Just(MV::Null)];
    ctx.run_random(
        &Closures,
        (prop::collection::vec(any::<u16>(), 0..80), junk(), junk()).prop_map(|(t, a, b)| site_case(&t, a, b)),
        ctx.tier.pick(30_000, 400_000),
    );
}
