//! C19 — CLI contract: exit status, outputs object, input merging, #name.

use crate::engine::proc::{Limits, run as run_proc};
use crate::engine::{Check, Ctx, Outcome, hash_str, pick_idx};
use crate::fail;
use crate::gen_::expr::Tape;
use crate::model::mv::num;
use crate::model::{MV, json};
use proptest::prelude::*;
use serde::{Deserialize, Serialize};

pub const RULE: &str = "generated scripts of 1-10 statements (bindings, `output name`, `output name = expr`, expression statements, comments; 0-6 output declarations incl. repeated names; values computable by the harness: literals, #k, inputs.k, references, arithmetic, lists and records of these) with an optional failing statement at any position (unknown identifier, type error, call of a non-function, rebinding, output of an unbound name, parse error) x input sets (optional piped stdin and 0-4 --input flags; objects and non-objects; overlapping keys; occasionally invalid JSON or invalid UTF-8, also on stdin) x invocation modes (file path, inline source, -e with the source on stdin, each with or without -o FILE), run in the real release binary and compared with a reference model of merging, bind-once evaluation, outputs and exit status. `output constants` / `output inf` / `output infinity` are declared like built-in names; a third of the scripts have no final line break, and string literals contain backslash-letter pairs (Blots has no escape sequences). Fixed scenarios add: one key given two or three times with object values of different field sets (the later object replaces the earlier one as a whole), scripts with tokens / strings / comments of 200 to 20 000 bytes in every mode, and slow producers (the piped document or -e script arrives 0.4-1.5 s late, in two pieces; also 1 in 40 random cases). Non-trivial = at least one output declaration together with overlapping input keys or a failing statement; distinct by (script, inputs, mode).";
pub const ASSUMPTIONS: &[&str] = &[
    "only finite numbers are used (JSON cannot carry infinities)",
    "the failing statement kinds are those the model can predict; a parse error anywhere fails the whole script before any statement runs",
];

#[derive(Clone, Debug, Serialize, Deserialize)]
pub enum Val {
    Lit(MV),
    Hash(String),
    InputsDot(String),
    Ref(String),
    Add(Box<Val>, Box<Val>),
    List(Vec<Val>),
    Rec(Vec<(String, Val)>),
    /// 0: 1 / 0, 1: 0 / 0, 2: -1 / 0 - values JSON cannot spell (the declared key must still be there)
    NonFinite(u8),
    /// `#key` and `inputs.key` read inside functions that are defined at top level and called
    /// from inside a function whose parameter is called `inputs`: both are the merged input
    Shadowed(String),
}

#[derive(Clone, Debug, Serialize, Deserialize)]
pub enum Stmt {
    Bind(String, Val),
    Output(String),
    OutputBind(String, Val),
    Expr(Val),
    Comment(String),
    /// raw failing statement text and whether it is a parse error
    Fail(String, bool),
    /// `output <built-in name>`: declares the built-in function itself
    OutputBuiltin(String),
}

#[derive(Clone, Debug, Serialize, Deserialize)]
pub struct Input {
    pub stdin: bool,
    /// JSON text (the harness writer), possibly invalid on purpose
    pub text: String,
    pub valid: Option<MV>,
    /// piped with a byte in front that makes the document invalid UTF-8 (and so invalid JSON)
    #[serde(default)]
    pub bad_utf8: bool,
}

#[derive(Clone, Debug, Serialize, Deserialize)]
pub struct Case {
    pub stmts: Vec<Stmt>,
    pub inputs: Vec<Input>,
    /// 0 = file, 1 = inline, 2 = -e (source on stdin)
    pub mode: u8,
    pub out_file: bool,
    /// the --output file already exists (with longer, unrelated content) before the run
    #[serde(default)]
    pub precreate: bool,
    /// the producer of stdin is slow: (bytes written at once, pause in ms before the rest)
    #[serde(default)]
    pub slow_stdin: Option<(u16, u16)>,
    /// the script text does not end in a line break (a one-statement script is then one line)
    #[serde(default)]
    pub no_final_newline: bool,
}

pub struct Cli;

fn val_src(v: &Val) -> String {
    match v {
        Val::Lit(m) => m.to_source(true),
        Val::Hash(k) => format!("#{}", k),
        Val::InputsDot(k) => format!("inputs.{}", k),
        Val::Ref(n) => n.clone(),
        Val::Add(a, b) => format!("({} + {})", val_src(a), val_src(b)),
        Val::List(v) => format!("[{}]", v.iter().map(val_src).collect::<Vec<_>>().join(", ")),
        Val::Rec(v) => format!("{{{}}}", v.iter().map(|(k, x)| format!("{}: {}", k, val_src(x))).collect::<Vec<_>>().join(", ")),
        Val::NonFinite(k) => ["(1 / 0)", "(0 / 0)", "(-1 / 0)"][*k as usize % 3].to_string(),
        Val::Shadowed(k) => format!("((fh, fi) => ((inputs) => [fh(), fi()])({{{}: \"shadow\"}}))(() => #{}, () => inputs.{})", k, k, k),
    }
}

fn stmt_src(s: &Stmt) -> String {
    match s {
        Stmt::Bind(n, v) => format!("{} = {}", n, val_src(v)),
        Stmt::Output(n) => format!("output {}", n),
        Stmt::OutputBind(n, v) => format!("output {} = {}", n, val_src(v)),
        Stmt::Expr(v) => val_src(v),
        Stmt::Comment(c) => format!("// {}", c),
        Stmt::Fail(t, _) => t.clone(),
        Stmt::OutputBuiltin(n) => format!("output {}", n),
    }
}

struct Model {
    inputs: Vec<(String, MV)>,
    env: Vec<(String, MV)>,
    outputs: Vec<(String, MV)>,
}

impl Model {
    fn eval(&self, v: &Val) -> Result<MV, ()> {
        match v {
            Val::Lit(m) => Ok(m.clone()),
            Val::Hash(k) | Val::InputsDot(k) => Ok(self.inputs.iter().find(|(k2, _)| k2 == k).map(|(_, v)| v.clone()).unwrap_or(MV::Null)),
            Val::Ref(n) => self.env.iter().find(|(k, _)| k == n).map(|(_, v)| v.clone()).ok_or(()),
            Val::Add(a, b) => {
                // scalar + and its broadcasting, as modelled for C11
                match crate::props::c11::model(crate::model::prec::Op::Add, &self.eval(a)?, &self.eval(b)?) {
                    crate::props::c11::Expect::Value(v) => Ok(v),
                    _ => Err(()),
                }
            }
            Val::List(v) => v.iter().map(|x| self.eval(x)).collect::<Result<Vec<_>, _>>().map(MV::List),
            Val::NonFinite(k) => Ok(num([f64::INFINITY, f64::NAN, f64::NEG_INFINITY][*k as usize % 3])),
            Val::Shadowed(k) => {
                let v = self.inputs.iter().find(|(k2, _)| k2 == k).map(|(_, v)| v.clone()).unwrap_or(MV::Null);
                Ok(MV::List(vec![v.clone(), v]))
            }
            Val::Rec(v) => {
                let mut out: Vec<(String, MV)> = Vec::new();
                for (k, x) in v {
                    let val = self.eval(x)?;
                    if let Some(slot) = out.iter_mut().find(|(k2, _)| k2 == k) {
                        slot.1 = val;
                    } else {
                        out.push((k.clone(), val));
                    }
                }
                Ok(MV::Rec(out))
            }
        }
    }

    fn bind(&mut self, n: &str, v: &Val) -> Result<(), ()> {
        if self.env.iter().any(|(k, _)| k == n) {
            return Err(());
        }
        let val = self.eval(v)?;
        self.env.push((n.to_string(), val));
        Ok(())
    }

    fn declare(&mut self, n: &str) -> Result<(), ()> {
        let v = self.env.iter().find(|(k, _)| k == n).map(|(_, v)| v.clone()).ok_or(())?;
        if let Some(slot) = self.outputs.iter_mut().find(|(k, _)| k == n) {
            slot.1 = v;
        } else {
            self.outputs.push((n.to_string(), v));
        }
        Ok(())
    }

    /// Ok(outputs) when every statement succeeds
    fn run(&mut self, stmts: &[Stmt]) -> Result<(), usize> {
        if stmts.iter().any(|s| matches!(s, Stmt::Fail(_, true))) {
            return Err(0);
        }
        for (i, s) in stmts.iter().enumerate() {
            let r = match s {
                Stmt::Bind(n, v) => self.bind(n, v),
                Stmt::Output(n) => self.declare(n),
                Stmt::OutputBind(n, v) => self.bind(n, v).and_then(|_| self.declare(n)),
                Stmt::Expr(v) => self.eval(v).map(|_| ()),
                Stmt::Comment(_) => Ok(()),
                Stmt::Fail(_, _) => Err(()),
                Stmt::OutputBuiltin(n) => {
                    // `output constants` / `output inf`: names that always have a value without being bindings
                    let v = match n.as_str() {
                        "constants" => MV::Rec(vec![
                            ("pi".to_string(), num(std::f64::consts::PI)),
                            ("e".to_string(), num(std::f64::consts::E)),
                            ("max_value".to_string(), num(f64::MAX)),
                            ("min_value".to_string(), num(f64::MIN_POSITIVE)),
                        ]),
                        "inf" | "infinity" => num(f64::INFINITY),
                        _ => MV::Rec(vec![("__blots_function".to_string(), MV::Str(n.clone()))]),
                    };
                    if let Some(slot) = self.outputs.iter_mut().find(|(k, _)| k == n) {
                        slot.1 = v;
                    } else {
                        self.outputs.push((n.clone(), v));
                    }
                    Ok(())
                }
            };
            if r.is_err() {
                return Err(i);
            }
        }
        Ok(())
    }
}

/// reference merge: stdin object first, then each --input in order; later keys override;
/// non-objects are named value_1, value_2, ... in order of appearance
fn merge(inputs: &[Input], use_stdin: bool) -> Result<Vec<(String, MV)>, ()> {
    let mut out: Vec<(String, MV)> = Vec::new();
    let mut counter = 0;
    let ordered = inputs.iter().filter(|i| i.stdin && use_stdin).chain(inputs.iter().filter(|i| !i.stdin));
    for inp in ordered {
        let Some(v) = &inp.valid else { return Err(()) };
        let pairs: Vec<(String, MV)> = match v {
            MV::Rec(f) => f.clone(),
            other => {
                counter += 1;
                vec![(format!("value_{}", counter), other.clone())]
            }
        };
        for (k, val) in pairs {
            if let Some(slot) = out.iter_mut().find(|(k2, _)| *k2 == k) {
                slot.1 = val;
            } else {
                out.push((k, val));
            }
        }
    }
    Ok(out)
}

impl Check for Cli {
    type Case = Case;
    fn name(&self) -> &'static str {
        "cli"
    }
    fn run(&self, c: &Case, ctx: &mut Ctx) -> Outcome {
        let script: String = c.stmts.iter().map(stmt_src).collect::<Vec<_>>().join("\n") + if c.no_final_newline { "" } else { "\n" };
        let use_stdin_inputs = c.mode != 2;
        let merged = merge(&c.inputs, use_stdin_inputs);
        let mut model = Model { inputs: merged.clone().unwrap_or_default(), env: vec![], outputs: vec![] };
        let inputs_ok = merged.is_ok();
        let run = if inputs_ok { model.run(&c.stmts) } else { Err(0) };
        let n_outputs = c.stmts.iter().filter(|s| matches!(s, Stmt::Output(_) | Stmt::OutputBind(..) | Stmt::OutputBuiltin(_))).count();
        let keys: Vec<Vec<String>> = c.inputs.iter().filter_map(|i| match &i.valid { Some(MV::Rec(f)) => Some(f.iter().map(|x| x.0.clone()).collect()), _ => None }).collect();
        let overlapping = keys.iter().enumerate().any(|(i, a)| keys.iter().skip(i + 1).any(|b| a.iter().any(|k| b.contains(k))));
        if n_outputs >= 1 && (overlapping || run.is_err()) {
            ctx.nontrivial(hash_str(&format!("{:?}", c)));
        }
        ctx.label(["mode:file", "mode:inline", "mode:-e"][c.mode as usize % 3]);
        ctx.label(if run.is_ok() { "expect-success" } else if !inputs_ok { "expect-input-error" } else { "expect-failure" });
        // invoke
        let dir = crate::engine::proc::scratch_dir("c19");
        let mut args: Vec<String> = Vec::new();
        for i in c.inputs.iter().filter(|i| !i.stdin) {
            args.push("-i".into());
            args.push(i.text.clone());
        }
        let out_path = format!("{}/out.json", dir);
        let stale = "{\"stale\": [1.0, 2.0, 3.0, 4.0, 5.0, 6.0, 7.0, 8.0, 9.0], \"left_over_from_an_earlier_run\": true, \"padding\": \"xxxxxxxxxxxxxxxxxxxxxxxxxxxxxxxxxxxxxxxxxxxxxxxxxxxxxxxxxxxxxxxxxxxxxxxxxxxxxxxxxxxxxxxxxxxxxxxx\"}\n";
        if c.out_file && c.precreate {
            std::fs::write(&out_path, stale).unwrap();
        }
        if c.out_file {
            args.push("-o".into());
            args.push(out_path.clone());
        }
        let stdin_json: Option<Vec<u8>> = c.inputs.iter().find(|i| i.stdin).map(|i| if i.bad_utf8 { [&[0xffu8][..], i.text.as_bytes()].concat() } else { i.text.clone().into_bytes() });
        let stdin_data: Option<Vec<u8>>;
        match c.mode % 3 {
            0 => {
                let p = format!("{}/script.blots", dir);
                std::fs::write(&p, &script).unwrap();
                args.push(p);
                stdin_data = stdin_json;
            }
            1 => {
                args.push(script.clone());
                stdin_data = stdin_json;
            }
            _ => {
                args.push("-e".into());
                stdin_data = Some(script.clone().into_bytes());
            }
        }
        let pace = c.slow_stdin.map(|(at, ms)| (at as usize, std::time::Duration::from_millis(ms as u64)));
        if pace.is_some() && stdin_data.is_some() {
            ctx.label("slow-stdin-producer");
        }
        let r = crate::engine::proc::run_paced(&ctx.cli_path, &args, stdin_data.as_deref(), Some(&dir), &Limits::default(), pace);
        let file_content = std::fs::read_to_string(&out_path).ok();
        let _ = std::fs::remove_dir_all(&dir);
        let r = match r {
            Ok(r) => r,
            Err(e) => fail!("spawn", "{}", e),
        };
        if r.timed_out {
            ctx.note("a CLI run timed out (inconclusive)");
            return Ok(());
        }
        let describe = || format!("argv {:?}\n--- stdin: {:?}\n--- script:\n{}--- exit: {}\n--- stdout: {}\n--- stderr: {}", args, stdin_data.as_ref().map(|b| String::from_utf8_lossy(b).into_owned()), script, r.describe(), r.stdout.trim(), r.stderr.trim().chars().take(300).collect::<String>());
        let mode = ["file", "inline", "-e"][c.mode as usize % 3];
        if r.signal.is_some() || r.code == Some(101) {
            fail!(format!("crash:{}", mode), "the CLI crashed\n{}", describe());
        }
        let emitted = if c.out_file { file_content.clone() } else { Some(r.stdout.clone()) };
        let parsed = emitted.as_ref().and_then(|t| json::parse(t.trim()).ok());
        match run {
            Ok(()) => {
                if r.code != Some(0) {
                    fail!(format!("success-but-nonzero-exit:{}", mode), "every statement should succeed but the CLI exits with {}\n{}", r.describe(), describe());
                }
                match parsed {
                    Some(MV::Rec(fields)) => {
                        let want = &model.outputs;
                        let names_got: Vec<&String> = fields.iter().map(|f| &f.0).collect();
                        let names_want: Vec<&String> = want.iter().map(|f| &f.0).collect();
                        if names_got != names_want {
                            fail!(format!("outputs:keys:{}", mode), "output keys {:?}, expected {:?} (declaration order)\n{}", names_got, names_want, describe());
                        }
                        for ((k, g), (_, w)) in fields.iter().zip(want) {
                            // JSON has no spelling for non-finite numbers: only the key is required then
                            if !w.all_finite() || w.has_nan() {
                                continue;
                            }
                            if !g.model_eq(w) {
                                fail!(format!("outputs:value:{}", mode), "output {} = {:?}, expected {:?}\n{}", k, g, w, describe());
                            }
                        }
                        if c.out_file && json::parse(r.stdout.trim()).is_ok() && !r.stdout.trim().is_empty() {
                            fail!("outputs:also-on-stdout", "with -o the outputs object was also printed on stdout\n{}", describe());
                        }
                        Ok(())
                    }
                    other => fail!(format!("outputs:not-one-object:{}", mode), "expected exactly one JSON object, got {:?}\n{}", other, describe()),
                }
            }
            Err(pos) => {
                let kind = if !inputs_ok {
                    "input-error"
                } else if c.stmts.iter().any(|s| matches!(s, Stmt::Fail(_, true))) {
                    "parse-error"
                } else {
                    match &c.stmts[pos] {
                        Stmt::Fail(..) => "failing-statement",
                        Stmt::Output(_) => "output-of-unbound-name",
                        Stmt::Bind(..) | Stmt::OutputBind(..) => "rebinding-or-bad-value",
                        _ => "bad-expression",
                    }
                };
                if r.code == Some(0) {
                    fail!(format!("failure-but-exit-0:{}:{}", kind, mode), "statement {} must fail ({}), but the CLI exits with status 0\n{}", pos + 1, kind, describe());
                }
                if matches!(json::parse(r.stdout.trim()), Ok(MV::Rec(_))) {
                    fail!(format!("failure-with-outputs-object:{}:{}", kind, mode), "the CLI exits with {} but still prints an outputs object\n{}", r.describe(), describe());
                }
                let untouched = if c.precreate { file_content.as_deref() == Some(stale) } else { file_content.is_none() };
                if c.out_file && !untouched {
                    fail!(format!("failure-writes-output-file:{}:{}", kind, mode), "the CLI exits with {} but wrote the --output file: {:?}\n{}", r.describe(), file_content, describe());
                }
                Ok(())
            }
        }
    }
}

// ---- generator -------------------------------------------------------------------------------

const KEYS: &[&str] = &["a", "b", "k", "x1", "value_1", "value_2", "value_total"];
const NAMES: &[&str] = &["p", "q", "r", "s", "total", "out1", "outputs", "output_dir", "outputx", "returned", "iffy"];

fn lit(t: &mut Tape) -> MV {
    match t.pick(8) {
        0 => num(1.0),
        1 => num(-2.5),
        2 => num(1e21),
        3 => MV::Str(["hi", "", "é", "a b", "a\\nb", "C:\\new\\table", "tab\\there"][t.pick(7)].into()),
        4 => MV::Bool(t.pick(2) == 0),
        5 => MV::Null,
        6 => MV::List(vec![num(1.0), num(2.0)]),
        _ => {
            // records with different field sets: a later one replaces an earlier one as a whole
            let inner = |c: f64| MV::Rec(vec![(if c == 1.0 { "c" } else { "d" }.to_string(), num(c))]);
            match t.pick(6) {
                0 | 1 => MV::Rec(vec![("a".into(), num(1.0)), ("z".into(), MV::Str("s".into()))]),
                2 => MV::Rec(vec![("a".into(), num(2.0))]),
                3 => MV::Rec(vec![]),
                4 => MV::Rec(vec![("z".into(), MV::Null), ("b".into(), inner(1.0))]),
                _ => MV::Rec(vec![("b".into(), inner(2.0))]),
            }
        }
    }
}

fn val(t: &mut Tape, bound: &[String], depth: usize) -> Val {
    match t.pick(if depth == 0 { 5 } else { 8 }) {
        0 => Val::Lit(lit(t)),
        1 => Val::Hash(KEYS[t.pick(KEYS.len())].into()),
        2 => Val::InputsDot(KEYS[t.pick(KEYS.len())].into()),
        3 if !bound.is_empty() => Val::Ref(bound[t.pick(bound.len())].clone()),
        3 | 4 => {
            if t.chance(1, 12) {
                Val::NonFinite(t.pick(3) as u8)
            } else if t.chance(1, 8) {
                Val::Shadowed(KEYS[t.pick(KEYS.len())].into())
            } else {
                Val::Lit(num(t.pick(10) as f64))
            }
        }
        5 => Val::Add(Box::new(val(t, bound, depth - 1)), Box::new(val(t, bound, depth - 1))),
        6 => {
            let k = t.pick(3);
            Val::List((0..k).map(|_| val(t, bound, depth - 1)).collect())
        }
        _ => Val::Rec(vec![("u".into(), val(t, bound, depth - 1)), ("v".into(), val(t, bound, depth - 1))]),
    }
}

fn input_value(t: &mut Tape) -> MV {
    match t.pick(6) {
        0 | 1 | 2 => {
            let k = 1 + t.pick(3);
            let mut f: Vec<(String, MV)> = Vec::new();
            for _ in 0..k {
                let key = KEYS[t.pick(KEYS.len())].to_string();
                if !f.iter().any(|(k2, _)| *k2 == key) {
                    f.push((key, lit(t)));
                }
            }
            // a top-level document is merged key by key even when one of its keys is the
            // reserved function marker (it is not a function object: it is the inputs record)
            if t.chance(1, 6) {
                let src = ["sum", "x => x + 1", "(a, b) => a", "not a function("][t.pick(4)];
                let at = t.pick(f.len() + 1);
                f.insert(at, ("__blots_function".to_string(), MV::Str(src.into())));
            }
            MV::Rec(f)
        }
        3 => num(t.pick(100) as f64),
        4 => MV::Str("plain".into()),
        _ => MV::List(vec![num(7.0)]),
    }
}

fn case(tape: &[u16]) -> Case {
    let mut t = Tape::new(tape);
    let mode = t.pick(3) as u8;
    let out_file = t.chance(1, 4);
    let mut inputs = Vec::new();
    if mode != 2 && t.chance(1, 2) {
        let v = input_value(&mut t);
        match t.pick(40) {
            0 => inputs.push(Input { stdin: true, text: ["{\"a\": ", "nope", "{'a': 1}", "{\"a\": 1} x"][t.pick(4)].into(), valid: None, bad_utf8: false }),
            1 => inputs.push(Input { stdin: true, text: json::write(&v, 0), valid: None, bad_utf8: true }),
            // a pipe that carries nothing but blanks / line breaks is "no piped inputs"
            2 | 3 => inputs.push(Input { stdin: true, text: ["\n", "  \n", "\r\n", " \t \n\n"][t.pick(4)].into(), valid: Some(MV::Rec(vec![])), bad_utf8: false }),
            _ => inputs.push(Input { stdin: true, text: json::write(&v, t.pick(2) as u8), valid: Some(v), bad_utf8: false }),
        }
    }
    let k = t.pick(5);
    for _ in 0..k {
        if t.chance(1, 25) {
            inputs.push(Input { stdin: false, text: ["{\"a\": ", "nope", "{'a': 1}", ""][t.pick(4)].into(), valid: None, bad_utf8: false });
        } else {
            let v = input_value(&mut t);
            inputs.push(Input { stdin: false, text: json::write(&v, t.pick(2) as u8), valid: Some(v), bad_utf8: false });
        }
    }
    // a later source that sets a key of an earlier one to null (null overrides like any value)
    if t.chance(1, 3) {
        let earlier: Vec<String> = inputs
            .iter()
            .filter_map(|i| match &i.valid {
                Some(MV::Rec(f)) => Some(f.iter().filter(|(_, v)| !matches!(v, MV::Null)).map(|(k, _)| k.clone()).collect::<Vec<_>>()),
                _ => None,
            })
            .flatten()
            .collect();
        if !earlier.is_empty() {
            let key = earlier[t.pick(earlier.len())].clone();
            let v = MV::Rec(vec![(key, MV::Null), ("zz".into(), num(1.0))]);
            inputs.push(Input { stdin: false, text: json::write(&v, t.pick(2) as u8), valid: Some(v), bad_utf8: false });
        }
    }
    // an empty --input text is ignored? no: it is a JSON error; keep it as invalid
    let n = 1 + t.pick(9);
    let mut stmts = Vec::new();
    let mut bound: Vec<String> = Vec::new();
    let fail_at = if t.chance(1, 3) { Some(t.pick(n + 1)) } else { None };
    for i in 0..n {
        if fail_at == Some(i) {
            let fails: &[(&str, bool)] = &[("nope_undefined", false), ("1 + \"x\"", false), ("[1, 2][0]()", false), ("zz = (((", true), ("output never_bound", false), ("sum = 3", false), ("inputs = 1", false), ("x = = 2", true), ("{a: 1}.a.b", false), ("output fs = [x => nope_helper(x)]", false), ("output fr = {k: [1, {f: y => y + nope_unbound}]}", false), ("output fd = z => nope_unbound(z)", false)];
            let (txt, parse) = fails[t.pick(fails.len())];
            stmts.push(Stmt::Fail(txt.to_string(), parse));
            continue;
        }
        match t.pick(9) {
            0 | 1 => {
                let name = NAMES[t.pick(NAMES.len())].to_string();
                stmts.push(Stmt::Bind(name.clone(), val(&mut t, &bound, 2)));
                if !bound.contains(&name) {
                    bound.push(name);
                }
            }
            2 | 3 => {
                let name = NAMES[t.pick(NAMES.len())].to_string();
                stmts.push(Stmt::OutputBind(name.clone(), val(&mut t, &bound, 2)));
                if !bound.contains(&name) {
                    bound.push(name);
                }
            }
            4 | 5 if !bound.is_empty() => stmts.push(Stmt::Output(bound[t.pick(bound.len())].clone())),
            6 => stmts.push(Stmt::Expr(val(&mut t, &bound, 2))),
            7 if t.chance(1, 3) => stmts.push(Stmt::OutputBuiltin(["sum", "max", "to_string", "constants", "inf", "infinity"][t.pick(6)].into())),
            7 => stmts.push(Stmt::Comment(["note", "output fake = 1", "{\"json\": true}"][t.pick(3)].into())),
            _ => stmts.push(Stmt::Output(NAMES[t.pick(NAMES.len())].to_string())),
        }
    }
    let precreate = out_file && t.chance(1, 2);
    let no_final_newline = t.chance(1, 3);
    // now and then the piped document arrives late and in two pieces
    let slow_stdin = if t.chance(1, 40) { Some((t.pick(12) as u16, [350u16, 600, 1100][t.pick(3)])) } else { None };
    Case { stmts, inputs, mode, out_file, precreate, slow_stdin, no_final_newline }
}

/// Inputs that cannot be converted (a function input the language refuses, e.g. one whose parameter
/// is named like a built-in): the run may be refused as an input error, but a document that is
/// given must never be skipped silently - an earlier value of the key must not show through and the
/// numbering of non-object values must not shift.
#[derive(Clone, Debug, Serialize, Deserialize)]
pub struct RefusedCase {
    /// source of the function input
    pub function: String,
    /// 0: later key overrides earlier key, 1: numbering of non-object values, 2: later stdin-vs-flag override, 3: alone
    pub scenario: u8,
    pub mode: u8,
}

pub struct Refused;

impl Check for Refused {
    type Case = RefusedCase;
    fn name(&self) -> &'static str {
        "refused-input"
    }
    fn run(&self, c: &RefusedCase, ctx: &mut Ctx) -> Outcome {
        ctx.label("refused-function-input");
        ctx.nontrivial(hash_str(&format!("{:?}", c)));
        let bad = format!("{{\"__blots_function\": {}}}", json::write(&MV::Str(c.function.clone()), 0));
        // (stdin document, -i documents, script, forbidden value of `a` when the run exits 0)
        let (stdin, flags, script, forbidden): (Option<String>, Vec<String>, &str, &str) = match c.scenario % 4 {
            0 => (None, vec!["{\"f\": 1}".into(), format!("{{\"f\": {}}}", bad)], "output a = [inputs.f == 1, #f == 1]", "[true,true]"),
            1 => (None, vec![format!("[{}]", bad), "7".into()], "output a = [#value_1 == 7, inputs.value_2 == null]", "[true,true]"),
            2 => (Some("{\"f\": \"early\", \"g\": 2}".into()), vec![format!("{{\"f\": {}, \"h\": 3}}", bad)], "output a = [inputs.f == \"early\", #h == null]", "[true,true]"),
            _ => (None, vec![format!("{{\"f\": {}, \"k\": 1}}", bad)], "output a = keys(inputs) .== [\"k\"]", "true"),
        };
        let dir = crate::engine::proc::scratch_dir("c19r");
        let mut args: Vec<String> = Vec::new();
        for f in &flags {
            args.push("-i".into());
            args.push(f.clone());
        }
        if c.mode % 2 == 0 {
            let p = format!("{}/s.blots", dir);
            std::fs::write(&p, format!("{}\n", script)).unwrap();
            args.push(p);
        } else {
            args.push(script.to_string());
        }
        let r = run_proc(&ctx.cli_path, &args, stdin.as_deref().map(|s| s.as_bytes()), None, &Limits::default());
        let _ = std::fs::remove_dir_all(&dir);
        let r = match r {
            Ok(r) => r,
            Err(e) => fail!("spawn", "{}", e),
        };
        if r.timed_out {
            ctx.note("a CLI run timed out (inconclusive)");
            return Ok(());
        }
        if r.signal.is_some() || r.code == Some(101) {
            fail!("refused-input:crash", "the CLI ended with {} on inputs {:?} / {:?}", r.describe(), stdin, flags);
        }
        if r.code != Some(0) {
            // refused as a whole: no outputs object
            if json::parse(r.stdout.trim()).is_ok() && !r.stdout.trim().is_empty() {
                fail!("refused-input:outputs-despite-failure", "exit {} but stdout holds {}", r.describe(), r.stdout.trim());
            }
            ctx.label("refused-input:reported");
            return Ok(());
        }
        let compact: String = r.stdout.chars().filter(|ch| !ch.is_whitespace()).collect();
        if compact == format!("{{\"a\":{}}}", forbidden) {
            fail!(
                format!("refused-input:silently-skipped:scenario{}", c.scenario % 4),
                "a function input the language refuses ({}) was skipped silently: the run exits 0 and behaves as if the document (or key) had not been given - an earlier value shows through / the numbering shifts\n--- stdin: {:?}\n--- -i: {:?}\n--- script: {}\n--- stdout: {}",
                c.function,
                stdin,
                flags,
                script,
                r.stdout.trim()
            );
        }
        Ok(())
    }
}

pub fn run(ctx: &mut Ctx) {
    // function inputs the language refuses (parameters named like built-ins / constants) and, for
    // comparison, ones it accepts or keeps as records
    let mut refused = Vec::new();
    for function in ["(sum) => sum", "(inf) => 1", "(constants) => 1", "(x, max?) => x", "(...len) => 1", "x => (infinity) => x", "(x) => x", "((", "// only a comment", "(a, a) => a"] {
        for scenario in 0..4u8 {
            for mode in 0..2u8 {
                refused.push(RefusedCase { function: function.to_string(), scenario, mode });
            }
        }
    }
    ctx.run_enum(&Refused, refused.into_iter(), false);
    // fixed documented scenarios
    let obj = |pairs: Vec<(&str, MV)>| MV::Rec(pairs.into_iter().map(|(k, v)| (k.to_string(), v)).collect());
    let inp = |stdin: bool, v: MV| Input { stdin, text: json::write(&v, 0), valid: Some(v), bad_utf8: false };
    let fixed = vec![
        Case { stmts: vec![Stmt::OutputBind("p".into(), Val::Add(Box::new(Val::Hash("a".into())), Box::new(Val::InputsDot("b".into()))))], inputs: vec![inp(true, obj(vec![("a", num(1.0)), ("b", num(2.0))])), inp(false, obj(vec![("b", num(10.0))])), inp(false, obj(vec![("a", num(5.0))]))], mode: 0, out_file: false, precreate: false, slow_stdin: None, no_final_newline: false },
        Case { stmts: vec![Stmt::OutputBind("p".into(), Val::List(vec![Val::Hash("value_1".into()), Val::Hash("value_2".into()), Val::Hash("value_3".into())]))], inputs: vec![inp(true, num(3.0)), inp(false, MV::Str("x".into())), inp(false, obj(vec![("value_total", num(1.0))])), inp(false, MV::Null)], mode: 1, out_file: false, precreate: false, slow_stdin: None, no_final_newline: false },
        Case { stmts: vec![Stmt::OutputBind("p".into(), Val::Hash("value_1".into()))], inputs: vec![inp(false, obj(vec![("value_1", MV::Str("a".into()))])), inp(false, num(7.0))], mode: 0, out_file: true, precreate: true, slow_stdin: None, no_final_newline: false },
        Case { stmts: vec![Stmt::Bind("p".into(), Val::Lit(num(1.0))), Stmt::Output("p".into()), Stmt::Output("q".into())], inputs: vec![], mode: 2, out_file: false, precreate: false, slow_stdin: None, no_final_newline: false },
        Case { stmts: vec![Stmt::OutputBind("p".into(), Val::Lit(num(1.0))), Stmt::Fail("nope".into(), false)], inputs: vec![], mode: 0, out_file: true, precreate: true, slow_stdin: None, no_final_newline: false },
        Case { stmts: vec![], inputs: vec![], mode: 1, out_file: false, precreate: false, slow_stdin: None, no_final_newline: false },
    ];
    let mut fixed = fixed;
    // the same key given twice with object values: the later object replaces the earlier one
    let cfg1 = obj(vec![("cfg", obj(vec![("a", num(1.0)), ("b", num(2.0))]))]);
    let cfg2 = obj(vec![("cfg", obj(vec![("b", num(3.0))]))]);
    let cfg3 = obj(vec![("cfg", obj(vec![]))]);
    let cfg4 = obj(vec![("cfg", obj(vec![("b", obj(vec![("deep", num(1.0))]))]))]);
    let cfg5 = obj(vec![("cfg", obj(vec![("b", obj(vec![("other", num(2.0))]))]))]);
    let show = || vec![Stmt::OutputBind("p".into(), Val::List(vec![Val::Hash("cfg".into()), Val::InputsDot("cfg".into())]))];
    for (first_on_stdin, docs) in [(true, vec![&cfg1, &cfg2]), (false, vec![&cfg1, &cfg2]), (false, vec![&cfg1, &cfg3]), (true, vec![&cfg2, &cfg1, &cfg3]), (false, vec![&cfg4, &cfg5]), (true, vec![&cfg4, &cfg5, &cfg1]), (false, vec![&cfg1, &cfg2, &cfg1])] {
        for mode in [0u8, 1] {
            let inputs: Vec<Input> = docs.iter().enumerate().map(|(i, d)| inp(first_on_stdin && i == 0, (*d).clone())).collect();
            fixed.push(Case { stmts: show(), inputs, mode, out_file: false, precreate: false, slow_stdin: None, no_final_newline: false });
        }
    }
    // `echo | blots script`: blank stdin is not an input document
    for text in ["\n", "   ", "\r\n\r\n"] {
        for mode in [0u8, 1] {
            fixed.push(Case { stmts: vec![Stmt::OutputBind("p".into(), Val::List(vec![Val::Hash("a".into()), Val::Lit(num(7.0))]))], inputs: vec![Input { stdin: true, text: text.into(), valid: Some(MV::Rec(vec![])), bad_utf8: false }, inp(false, obj(vec![("a", num(1.0))]))], mode, out_file: false, precreate: false, slow_stdin: None, no_final_newline: false });
        }
    }
    // slow producers: the piped inputs (or the -e script) arrive late and in pieces
    for (at, ms) in [(0u16, 400u16), (1, 400), (5, 700), (3, 1200), (0, 1500)] {
        for mode in [0u8, 1, 2] {
            fixed.push(Case { stmts: vec![Stmt::OutputBind("p".into(), Val::List(vec![Val::Hash("a".into()), Val::InputsDot("b".into())]))], inputs: vec![inp(true, obj(vec![("a", num(1.0)), ("b", MV::Str("x".into()))]))], mode, out_file: false, precreate: false, slow_stdin: Some((at, ms)), no_final_newline: false });
        }
    }
    // one-line scripts (no line break at all) whose strings and comments hold a backslash followed by a letter
    for mode in [0u8, 1, 2] {
        for text in ["a\\nb", "C:\\new\\table", "\\n", "x\\ny\\nz"] {
            fixed.push(Case { stmts: vec![Stmt::OutputBind("p".into(), Val::List(vec![Val::Lit(MV::Str(text.into())), Val::Lit(num(1.0))]))], inputs: vec![], mode, out_file: false, precreate: false, slow_stdin: None, no_final_newline: true });
        }
    }
    // long scripts and long tokens in every invocation mode (an inline script is never a path)
    for n in [200usize, 254, 255, 256, 257, 300, 1000, 4094, 4095, 4096, 4097, 5000, 20000] {
        for mode in [0u8, 1, 2] {
            fixed.push(Case { stmts: vec![Stmt::OutputBind("p".into(), Val::Lit(MV::Str("a".repeat(n))))], inputs: vec![], mode, out_file: false, precreate: false, slow_stdin: None, no_final_newline: false });
            fixed.push(Case { stmts: vec![Stmt::Bind(format!("n{}", "a".repeat(n)), Val::Lit(num(1.0))), Stmt::Output(format!("n{}", "a".repeat(n)))], inputs: vec![], mode, out_file: n % 2 == 0, precreate: false, slow_stdin: None, no_final_newline: false });
            fixed.push(Case { stmts: vec![Stmt::Comment("c".repeat(n)), Stmt::OutputBind("p".into(), Val::Lit(num(1.0)))], inputs: vec![], mode, out_file: false, precreate: false, slow_stdin: None, no_final_newline: false });
        }
    }
    ctx.run_enum(&Cli, fixed.into_iter().filter(|c| !c.stmts.is_empty()), false);
    ctx.run_random(&Cli, prop::collection::vec(any::<u16>(), 0..160).prop_map(|t| case(&t)), ctx.tier.pick(4_000, 80_000));
    let _ = pick_idx(0, 1);
}
