//! C06 — data survives output -> JSON -> input unchanged.

use crate::blots::Sess;
use crate::engine::proc::{Limits, run as run_proc};
use crate::engine::{Check, Ctx, Outcome, hash_str};
use crate::fail;
use crate::model::json;
use crate::model::{F, MV};
use blots_core::values::SerializableValue;
use proptest::prelude::*;
use serde::{Deserialize, Serialize};

pub const RULE: &str = "recursive data values (finite doubles over bit patterns and boundaries, strings over all Unicode scalars incl. quotes / backslashes / control characters, keys incl. empty, numeric-looking, needing quotes, composed vs decomposed; depth <= 6; the key __blots_function only with non-string values - numbers, booleans, null, lists, records - which is not the reserved function form): (1) value -> from_value -> to_json -> text -> from_str -> from_json -> to_value in a fresh heap, compared bit-exactly and with .== in one heap; (2) JSON text from the harness's own writer (four number spellings, escaped / raw non-ASCII) -> inputs -> `output x = inputs.x` -> JSON text, read by the harness's own JSON parser (Rust's correctly rounded float parser) and compared as JSON values; (3) a sample of both through the real CLI with -i and with piped stdin (a third of them written with --output FILE into a file that already holds a longer outputs document, and read back from that file), including documents of 64 KiB .. 300 KiB of raw multi-byte characters at every byte alignment; (4) for every value a, the program-built aliased values [a, a] and {p: a, q: [a, {r: a}]} (one heap object reachable several times) serialise to the data they contain. (5) values nested 7 .. 300 levels deep (lists, records, alternating), built by a program, written by the CLI and piped into `output x = inputs.x`. Non-trivial = depth >= 2, or a non-integer number, or a non-ASCII string; distinct by serialised value.";
pub const ASSUMPTIONS: &[&str] = &[
    "reference number conversion is Rust's str::parse::<f64> (correctly rounded), independent of serde_json's parser",
    "JSON objects with duplicate keys are not generated (their meaning is unspecified in JSON)",
];

#[derive(Clone, Debug, Serialize, Deserialize)]
pub enum Case {
    Value(MV),
    Doc { value: MV, style: u8 },
    Cli {
        value: MV,
        style: u8,
        stdin: bool,
        /// written with --output FILE into a file that already holds an earlier, longer outputs document, then read back from it
        #[serde(default)]
        out_file: bool,
    },
    /// a value nested `depth` levels deep (lists, records or alternating), built by a program,
    /// written by the CLI as output and piped into a second program as input
    Deep { depth: u16, kind: u8 },
}

pub struct RoundTrip;

fn nontrivial(v: &MV) -> bool {
    fn any(v: &MV, f: &dyn Fn(&MV) -> bool) -> bool {
        f(v) || match v {
            MV::List(l) => l.iter().any(|x| any(x, f)),
            MV::Rec(r) => r.iter().any(|(k, x)| !k.is_ascii() || any(x, f)),
            _ => false,
        }
    }
    v.depth() >= 2
        || any(v, &|x| match x {
            MV::Num(F(n)) => n.fract() != 0.0,
            MV::Str(s) => !s.is_ascii(),
            _ => false,
        })
}

fn diff_class(a: &MV, b: &MV) -> &'static str {
    match (a, b) {
        (MV::Num(_), MV::Num(_)) => "number-bits",
        (MV::Str(_), MV::Str(_)) => "string",
        (MV::List(x), MV::List(y)) => {
            if x.len() != y.len() {
                return "structure";
            }
            for (p, q) in x.iter().zip(y) {
                if !p.same_bits(q) {
                    return diff_class(p, q);
                }
            }
            "structure"
        }
        (MV::Rec(x), MV::Rec(y)) => {
            if x.len() != y.len() || x.iter().any(|(k, _)| !y.iter().any(|(k2, _)| k2 == k)) {
                return "key";
            }
            for (k, p) in x {
                let q = &y.iter().find(|(k2, _)| k2 == k).unwrap().1;
                if !p.same_bits(q) {
                    return diff_class(p, q);
                }
            }
            "structure"
        }
        _ => "structure",
    }
}

/// mirror of the CLI's input handling for one object document
fn inputs_from_text(sess: &Sess, text: &str) -> Result<(), String> {
    let v: serde_json::Value = serde_json::from_str(text).map_err(|e| format!("input JSON rejected: {}", e))?;
    let serde_json::Value::Object(obj) = v else { return Err("not an object".into()) };
    let mut map = indexmap::IndexMap::new();
    for (k, v) in obj.iter() {
        let sv = crate::blots::from_json(v);
        let val = sv.to_value(&mut sess.heap.borrow_mut()).map_err(|e| e.to_string())?;
        map.insert(k.clone(), val);
    }
    let rec = sess.heap.borrow_mut().insert_record(map);
    sess.bind_value("inputs", rec);
    Ok(())
}

impl Check for RoundTrip {
    type Case = Case;
    fn name(&self) -> &'static str {
        "roundtrip"
    }
    fn run(&self, c: &Case, ctx: &mut Ctx) -> Outcome {
        match c {
            Case::Value(v) => {
                ctx.label("value->json->value");
                if nontrivial(v) {
                    ctx.nontrivial(hash_str(&format!("{:?}", v)));
                }
                let s1 = Sess::new();
                let val = v.to_value(&mut s1.heap.borrow_mut());
                let sv = SerializableValue::from_value(&val, &s1.heap.borrow()).map_err(|e| crate::engine::Failure::new("serialise-fails", e.to_string()))?;
                let text = match serde_json::to_string(&sv.to_json()) {
                    Ok(t) => t,
                    Err(e) => fail!("serialise-fails", "to_string failed: {}", e),
                };
                let parsed: serde_json::Value = match serde_json::from_str(&text) {
                    Ok(p) => p,
                    Err(e) => fail!("output-not-json", "emitted text {} does not parse as JSON: {}", text, e),
                };
                let s2 = Sess::new();
                let back = match crate::blots::from_json(&parsed).to_value(&mut s2.heap.borrow_mut()) {
                    Ok(b) => b,
                    Err(e) => fail!("reload-fails", "reload failed: {}", e),
                };
                let got = s2.mv(&back).map_err(|e| crate::engine::Failure::new("reload-fails", e))?;
                if !got.same_bits(v) {
                    fail!(format!("value:{}", diff_class(v, &got)), "value {:?} was written as {} and read back as {:?}", v, text, got);
                }
                // the harness's own reader agrees on what the emitted text denotes
                match json::parse(&text) {
                    Ok(m) if m.same_bits(v) => {}
                    other => fail!(format!("emitted-text:{}", other.as_ref().map(|m| diff_class(v, m)).unwrap_or("unparseable")), "emitted JSON {} denotes {:?}, not the original {:?}", text, other, v),
                }
                // .== in one heap
                let s3 = Sess::new();
                s3.bind("a", v);
                s3.bind("b", &got);
                if s3.probe("a .== b") != Ok(MV::Bool(true)) {
                    fail!("value:not-dot-equal", "reloaded value is not .== to the original: {:?}", v);
                }
                // the same heap object reachable several times (values built by a program from a
                // name, not from a literal): data, not identity, is what is written
                for (src, expect) in [
                    ("[a, a]", MV::List(vec![v.clone(), v.clone()])),
                    ("{p: a, q: [a, {r: a}]}", MV::Rec(vec![("p".into(), v.clone()), ("q".into(), MV::List(vec![v.clone(), MV::Rec(vec![("r".into(), v.clone())])]))])),
                ] {
                    let shared = match s3.eval_src(src) {
                        Ok(x) => x,
                        Err(e) => fail!("harness:shared-eval", "{}: {}", src, e),
                    };
                    let text = match SerializableValue::from_value(&shared, &s3.heap.borrow()).map(|sv| serde_json::to_string(&sv.to_json())) {
                        Ok(Ok(t)) => t,
                        other => fail!("shared:serialise-fails", "`{}` with a = {:?} cannot be serialised: {:?}", src, v, other.map(|_| ()).map_err(|e| e.to_string())),
                    };
                    match json::parse(&text) {
                        Ok(m) if m.same_bits(&expect) => {}
                        other => fail!(format!("shared:{}", other.as_ref().map(|m| diff_class(&expect, m)).unwrap_or("unparseable")), "`{}` with a = {:?} was written as {}", src, v, text),
                    }
                }
                Ok(())
            }
            Case::Doc { value, style } => {
                ctx.label("doc->inputs->output->json");
                if nontrivial(value) {
                    ctx.nontrivial(hash_str(&format!("{:?}|{}", value, style)));
                }
                let doc = format!("{{\"x\":{}}}", json::write(value, *style));
                let sess = Sess::new();
                if let Err(e) = inputs_from_text(&sess, &doc) {
                    fail!("doc:input-rejected", "input document {} : {}", doc, e);
                }
                let out = match sess.eval_src("output x = inputs.x") {
                    Ok(v) => v,
                    Err(e) => fail!("doc:eval-fails", "{}", e),
                };
                let sv = SerializableValue::from_value(&out, &sess.heap.borrow()).map_err(|e| crate::engine::Failure::new("doc:serialise-fails", e.to_string()))?;
                let text = serde_json::to_string(&sv.to_json()).unwrap();
                match json::parse(&text) {
                    // direction 2 is stated up to JSON value equality with numbers as doubles
                    Ok(m) if m.model_eq(value) => Ok(()),
                    other => fail!(
                        format!("doc:{}", other.as_ref().map(|m| diff_class(value, m)).unwrap_or("unparseable")),
                        "input {} came out as {} (denoting {:?}), expected {:?}",
                        doc,
                        text,
                        other,
                        value
                    ),
                }
            }
            Case::Deep { depth, kind } => {
                ctx.label("cli-deep-nesting");
                ctx.nontrivial(hash_str(&format!("deep{}|{}", depth, kind)));
                let wrap = ["[a]", "{k: a}", "if i % 2 == 0 then [a] else {k: a}"][*kind as usize % 3];
                let prog1 = format!("output x = reduce(range({}), (a, i) => {}, 1)", depth, wrap);
                let lim = Limits::default();
                let r1 = match run_proc(&ctx.cli_path, &[prog1.clone()], None, None, &lim) {
                    Ok(r) => r,
                    Err(e) => fail!("cli:spawn", "cannot run {}: {}", ctx.cli_path, e),
                };
                if r1.timed_out {
                    ctx.note("a CLI run timed out (inconclusive)");
                    return Ok(());
                }
                if r1.code != Some(0) {
                    fail!("cli:deep:not-written", "`{}` exits with {}: {}", prog1, r1.describe(), r1.stderr);
                }
                let written = match json::parse(r1.stdout.trim()) {
                    Ok(v) => v,
                    Err(e) => fail!("cli:deep:written-document-invalid", "`{}` printed a document the harness cannot read: {}", prog1, e),
                };
                let r2 = match run_proc(&ctx.cli_path, &["output x = inputs.x".into()], Some(r1.stdout.as_bytes()), None, &lim) {
                    Ok(r) => r,
                    Err(e) => fail!("cli:spawn", "cannot run {}: {}", ctx.cli_path, e),
                };
                if r2.timed_out {
                    ctx.note("a CLI run timed out (inconclusive)");
                    return Ok(());
                }
                if r2.code != Some(0) {
                    // the document {"x": ...} has depth + 1 levels
                    let sig = format!("cli:deep:read-back-rejected:{}", if *depth >= 127 { "document-depth>=128" } else { "document-depth<128" });
                    let msg = format!("the output of `{}` (a value nested {} deep) piped into `output x = inputs.x` is rejected: {} {}", prog1, depth, r2.describe(), r2.stderr.chars().take(200).collect::<String>());
                    if ctx.step_over_known("roundtrip", &sig, || (msg.clone(), serde_json::to_value(c).unwrap())) {
                        return Ok(());
                    }
                    fail!(sig, "{}", msg);
                }
                match json::parse(r2.stdout.trim()) {
                    Ok(back) if back.model_eq(&written) => Ok(()),
                    other => fail!("cli:deep:changed", "a value nested {} deep came back different: {:?}", depth, other.map(|_| "parsed")),
                }
            }
            Case::Cli { value, style, stdin, out_file } => {
                ctx.label(if *stdin { "cli-stdin" } else { "cli--i" });
                if *out_file {
                    ctx.label("cli--output-file-reused");
                }
                if json::write(value, *style).len() > 65536 {
                    ctx.label("cli:document>64KiB");
                }
                if nontrivial(value) {
                    ctx.nontrivial(hash_str(&format!("cli{:?}|{}", value, style)));
                }
                let doc = format!("{{\"x\":{}}}", json::write(value, *style));
                let dir = crate::engine::proc::scratch_dir("c06");
                let script = format!("{}/p.blots", dir);
                std::fs::write(&script, "output x = inputs.x\n").unwrap();
                let out_path = format!("{}/out.json", dir);
                let mut args: Vec<String> = Vec::new();
                if *out_file {
                    // the file holds the outputs of an earlier run, longer than anything this run writes
                    std::fs::write(&out_path, format!("{{\"x\":\"{}\",\"y\":[1,2,3]}}\n", "#".repeat(doc.len() * 6 + 64))).unwrap();
                    args.push("-o".into());
                    args.push(out_path.clone());
                }
                if !*stdin {
                    args.push("-i".into());
                    args.push(doc.clone());
                }
                args.push(script.clone());
                let r = run_proc(&ctx.cli_path, &args, if *stdin { Some(doc.as_bytes()) } else { None }, None, &Limits::default());
                let written = if *out_file { std::fs::read_to_string(&out_path).ok() } else { None };
                let _ = std::fs::remove_dir_all(&dir);
                let mut r = match r {
                    Ok(r) => r,
                    Err(e) => fail!("cli:spawn", "cannot run {}: {}", ctx.cli_path, e),
                };
                if *out_file && !r.timed_out && r.code == Some(0) {
                    match written {
                        Some(t) => r.stdout = t,
                        None => fail!("cli:output-file-unreadable", "blots -o FILE exited 0 but FILE is not readable text; input {}", doc),
                    }
                }
                if r.timed_out {
                    ctx.note("a CLI run timed out (inconclusive)");
                    return Ok(());
                }
                if r.code != Some(0) {
                    fail!("cli:nonzero-exit", "blots exited with {} on input {}: {} {}", r.describe(), doc, r.stdout, r.stderr);
                }
                match json::parse(r.stdout.trim()) {
                    Ok(MV::Rec(fields)) if fields.len() == 1 && fields[0].0 == "x" && fields[0].1.model_eq(value) => Ok(()),
                    other => fail!(
                        format!("cli:{}", match &other { Ok(MV::Rec(f)) if f.len() == 1 => diff_class(value, &f[0].1), _ => "structure" }),
                        "CLI printed {} for input {}; expected x = {:?}; parsed {:?}",
                        r.stdout.trim(),
                        doc,
                        value,
                        other
                    ),
                }
            }
        }
    }
}

/// Rename one key of a record somewhere in `v` to the reserved key `__blots_function` when
/// the value under it is not a string (such an object is not of the reserved function form and
/// must come back as the record it is).
fn with_reserved_key(mut v: MV, pick: u16) -> MV {
    fn walk(v: &mut MV, left: &mut i32) {
        match v {
            MV::Rec(fields) => {
                if *left >= 0 && !fields.iter().any(|(k, _)| k == "__blots_function") {
                    if let Some(i) = fields.iter().position(|(_, x)| !matches!(x, MV::Str(_))) {
                        if *left == 0 {
                            fields[i].0 = "__blots_function".into();
                        }
                        *left -= 1;
                    }
                }
                for (_, x) in fields.iter_mut() {
                    walk(x, left);
                }
            }
            MV::List(items) => {
                for x in items.iter_mut() {
                    walk(x, left);
                }
            }
            _ => {}
        }
    }
    // one in four values gets the key, at the (pick / 4 % 3)-th eligible record
    if pick % 4 == 0 {
        let mut left = (pick / 4 % 3) as i32;
        walk(&mut v, &mut left);
    }
    v
}

pub fn run(ctx: &mut Ctx) {
    let fixed: Vec<MV> = vec![
        MV::Num(F(-0.0)),
        MV::Num(F(5e-324)),
        MV::Num(F(9007199254740993.0)),
        MV::Num(F(f64::MAX)),
        MV::Num(F(0.1 + 0.2)),
        MV::Num(F(3771.4999999999995)),
        MV::Str("\u{0}\u{1f}\"\\/\u{7f}\u{2028}\u{ffff}\u{10ffff}".into()),
        MV::Str("😀".into()),
        // separators that writers like to escape or split at: U+2028 / U+2029 / U+0085 / BOM / ; , |
        MV::Str("a\u{2028}b\u{2029}c\u{85}d\u{feff}e;f,g|h\u{200b}".into()),
        MV::Rec(vec![("p\u{2029}".into(), MV::Num(F(1.0))), ("p\u{2028}".into(), MV::Num(F(2.0))), ("k;1".into(), MV::Str(";".into())), ("\u{feff}".into(), MV::Str("\u{2029}".into()))]),
        MV::List(vec![MV::Str(";".into()), MV::Str("a;b;c".into()), MV::Str("\u{2029}".into()), MV::Str("x\u{2029}\u{2029}".into())]),
        MV::Rec(vec![("".into(), MV::Null), ("1".into(), MV::Bool(true)), ("a b".into(), MV::List(vec![])), ("é".into(), MV::Num(F(1.0))), ("e\u{301}".into(), MV::Num(F(2.0)))]),
        MV::List(vec![MV::List(vec![MV::List(vec![MV::List(vec![MV::List(vec![MV::Rec(vec![])])])])])]),
        // a string ending in a backslash, then strings / keys that look like JSON with trailing commas
        MV::Rec(vec![
            ("x".into(), MV::List(vec![MV::Str("C:\\tmp\\".into()), MV::Str("[1,2,]".into())])),
            ("y\\".into(), MV::Str("{\"a\":1,}".into())),
            ("z,]".into(), MV::List(vec![MV::Str(", ]".into()), MV::Str(",}".into())])),
        ]),
        MV::List(vec![MV::Str("\\".into()), MV::Str("a,]".into()), MV::Str("\\\\".into()), MV::Str("b, }".into())]),
        MV::Rec(vec![("__blots_function".into(), MV::Num(F(1.0)))]),
        MV::Rec(vec![("a".into(), MV::Num(F(1.0))), ("__blots_function".into(), MV::Null), ("b".into(), MV::Str("x".into()))]),
        MV::List(vec![MV::Rec(vec![("k".into(), MV::Rec(vec![("__blots_function".into(), MV::List(vec![MV::Str("x => x".into())])), ("z".into(), MV::Bool(true))]))])]),
        MV::Rec(vec![("__blots_function".into(), MV::Rec(vec![("__blots_function".into(), MV::Bool(false))]))]),
        MV::Rec(vec![("__blots_functions".into(), MV::Str("x => x".into()))]),
    ];
    let mut cases = Vec::new();
    for v in &fixed {
        cases.push(Case::Value(v.clone()));
        for st in 0..4 {
            cases.push(Case::Doc { value: v.clone(), style: st });
        }
        cases.push(Case::Cli { value: v.clone(), style: 0, stdin: false, out_file: false });
        cases.push(Case::Cli { value: v.clone(), style: 2, stdin: true, out_file: true });
    }
    // values nested far deeper than the random generator goes ("at any nesting depth")
    for depth in [7u16, 30, 64, 100, 120, 125, 126, 127, 128, 150, 300] {
        for kind in 0..3u8 {
            cases.push(Case::Deep { depth, kind });
        }
    }
    ctx.run_enum(&RoundTrip, cases.into_iter(), false);
    // documents larger than any plausible read buffer (64 KiB .. 1 MiB), multi-byte characters at every alignment
    let big = (prop::sample::select(vec!["€", "é", "😀", "a€", "日本", "x"]), 0usize..7, 1usize..5, any::<bool>(), 0u8..4).prop_map(|(unit, pad, blocks, stdin, style)| {
        // one command-line argument holds at most 128 KiB: only piped documents go beyond 66 KiB
        let blocks = if stdin { blocks } else { 1 };
        let body: String = std::iter::repeat(unit).take(blocks * 66_000 / unit.len() + 17).collect();
        let value = MV::Rec(vec![("pad".into(), MV::Str("p".repeat(pad))), ("big".into(), MV::Str(body)), ("tail".into(), MV::List(vec![MV::Str("é😀".into()), MV::Num(F(0.1))]))]);
        // even styles keep non-ASCII characters raw; escaped spellings (6 bytes per character) only when piped
        Case::Cli { value, style: if stdin { style } else { style & 2 }, stdin, out_file: pad % 3 == 0 }
    });
    ctx.run_random(&RoundTrip, big, ctx.tier.pick(48, 400));
    let n = ctx.tier.pick(40_000, 1_200_000);
    ctx.run_random(&RoundTrip, (crate::gen_::data_mv(5), any::<u16>()).prop_map(|(v, k)| Case::Value(with_reserved_key(v, k))), n);
    ctx.run_random(&RoundTrip, (crate::gen_::data_mv(5), 0u8..4, any::<u16>()).prop_map(|(value, style, k)| Case::Doc { value: with_reserved_key(value, k), style }), n);
    ctx.run_random(
        &RoundTrip,
        (crate::gen_::data_mv(4), 0u8..4, any::<bool>(), any::<u16>()).prop_map(|(value, style, stdin, k)| Case::Cli { value: with_reserved_key(value, k), style, stdin, out_file: k % 3 == 0 }),
        ctx.tier.pick(400, 8_000),
    );
}
