//! C17 — unit conversion is consistent across the whole unit table.

use crate::blots::Sess;
use crate::engine::{Check, Ctx, Outcome, hash_str};
use crate::fail;
use crate::model::mv::{num, s};
use crate::model::{F, MV};
use blots_core::units::{self, ConversionType, Unit};
use proptest::prelude::*;
use serde::{Deserialize, Serialize};

pub const RULE: &str = "exhaustive over get_all_units(): every identifier (exact resolution), upper/lower/title/swapped case variants of every identifier and every substitution of one character by another with the same lower-case form (K / KELVIN SIGN, OHM SIGN / omega, ...) (resolution iff unambiguous, computed independently over the table), every identifier against the unit's first identifier (identical behaviour, bitwise), every ordered pair of identifiers of the whole table (same category: bitwise the result of the units' first identifiers; different categories: must fail), every ordered same-category pair and every same-category triple x a magnitude set (identity, there-and-back, composition), every cross-category ordered pair (must fail), SI-prefixed names vs their base (power-of-ten ratio), random non-identifiers (must fail, also with the same non-identifier on both sides and through the built-in), every ordered pair of spellings that differ only by letter case converted one after the other in one thread (the second must behave as in a fresh thread), every identifier (as source, as target, against itself and against the unit's first identifier; bound to a name and written as a string literal), every case variant and every first-identifier pair through the `convert` built-in, which must agree bitwise with units::convert; thorough adds all magnitudes 0, +-1e-12..+-1e12, 7.25 and random values. Non-trivial = a law instance involving two distinct units (or an identifier that is not the unit's first); distinct by (law, identifiers, magnitude).";
pub const ASSUMPTIONS: &[&str] = &[
    "multi-step paths are held to a rounding bound: relative 16*eps for multiplicative (linear / reciprocal) units, absolute 32*eps*max(|values involved|, 500) for the affine temperature scales",
    "internally consistent laws cannot detect a mistyped coefficient; only the SI-prefix ratio law compares coefficients with an external table (harness prefix list)",
    "case-insensitive means equal after Unicode lower-casing (str::to_lowercase)",
];

#[derive(Clone, Debug, Serialize, Deserialize)]
pub enum Case {
    Ident { first: String, ident: String },
    CaseVariant { variant: String },
    Alias { first: String, ident: String, partner: String, v: F },
    Pair { a: String, b: String, v: F },
    Triple { a: String, b: String, c: String, v: F },
    Cross { a: String, b: String },
    Unknown { text: String },
    Prefix { prefixed: String, base: String, power: i32 },
    Builtin { a: String, b: String, v: F },
    /// like Builtin, with the identifiers written as string literals in the program text
    BuiltinText { a: String, b: String, v: F },
    /// every ordered pair of identifiers: (ia, ib) must behave like the first identifiers (fa, fb) of their units
    IdentPair { ia: String, ib: String, fa: String, fb: String, same_category: bool },
    /// two conversions one after the other in one thread, the second spelled like the first up to
    /// letter case: its outcome must be what it is in a thread that has done nothing before
    Sequence { first: (String, String), second: (String, String) },
}

pub struct Units;

fn same_unit(a: &Unit, b: &Unit) -> bool {
    a.category == b.category && a.identifiers == b.identifiers
}

fn by_first(first: &str) -> Option<Unit> {
    units::get_all_units().into_iter().find(|u| u.identifiers[0] == first)
}

fn is_temperature(u: &Unit) -> bool {
    matches!(u.conversion, ConversionType::Temperature { .. })
}

fn close(got: f64, want: f64, temp: bool, scale: f64) -> bool {
    if got == want || (got.is_nan() && want.is_nan()) {
        return true;
    }
    if !got.is_finite() || !want.is_finite() {
        return false;
    }
    if temp {
        (got - want).abs() <= 32.0 * f64::EPSILON * scale.max(500.0)
    } else {
        (got - want).abs() <= 16.0 * f64::EPSILON * want.abs().max(got.abs()) + 4.0 * f64::MIN_POSITIVE
    }
}

fn conv(v: f64, a: &str, b: &str) -> Result<f64, String> {
    units::convert(v, a, b).map_err(|e| e.to_string())
}

const SI: &[(&str, i32)] = &[
    ("yotta", 24),
    ("zetta", 21),
    ("exa", 18),
    ("peta", 15),
    ("tera", 12),
    ("giga", 9),
    ("mega", 6),
    ("kilo", 3),
    ("hecto", 2),
    ("deka", 1),
    ("deca", 1),
    ("deci", -1),
    ("centi", -2),
    ("milli", -3),
    ("micro", -6),
    ("nano", -9),
    ("pico", -12),
    ("femto", -15),
    ("atto", -18),
    ("zepto", -21),
    ("yocto", -24),
];

/// (prefixed identifier, base identifier, expected power of ten) derived from names only
fn prefix_pairs() -> Vec<(String, String, i32)> {
    let all = units::get_all_units();
    let mut out = Vec::new();
    for u in &all {
        for id in u.identifiers {
            let (lead, rest, mult) = if let Some(r) = id.strip_prefix("square ") {
                ("square ", r, 2)
            } else if let Some(r) = id.strip_prefix("cubic ") {
                ("cubic ", r, 3)
            } else {
                ("", *id, 1)
            };
            for (p, k) in SI {
                if let Some(stem) = rest.strip_prefix(p) {
                    if stem.len() < 3 {
                        continue;
                    }
                    let base_name = format!("{}{}", lead, stem);
                    for w in &all {
                        if w.category == u.category && !same_unit(w, u) && w.identifiers.contains(&base_name.as_str()) {
                            out.push((id.to_string(), base_name.clone(), k * mult));
                        }
                    }
                }
            }
        }
    }
    out.sort();
    out.dedup();
    out
}

impl Check for Units {
    type Case = Case;
    fn name(&self) -> &'static str {
        "units"
    }
    fn run(&self, c: &Case, ctx: &mut Ctx) -> Outcome {
        match c {
            Case::Ident { first, ident } => {
                ctx.label("ident-exact");
                if ident != first {
                    ctx.nontrivial(hash_str(&format!("id|{}", ident)));
                }
                let Some(u) = by_first(first) else { fail!("harness:unit-missing", "unit {} disappeared", first) };
                match units::resolve_unit(ident) {
                    Ok(r) if same_unit(&r, &u) => Ok(()),
                    Ok(r) => fail!(format!("resolve:wrong-unit:{}", ident), "identifier {:?} listed for {:?} resolves to {:?}", ident, u.identifiers, r.identifiers),
                    Err(e) => fail!(format!("resolve:listed-identifier-rejected:{}", ident), "identifier {:?} listed for unit {:?} does not resolve: {}", ident, u.identifiers, e),
                }
            }
            Case::CaseVariant { variant } => {
                ctx.label("ident-case-variant");
                let all = units::get_all_units();
                let exact: Vec<&Unit> = all.iter().filter(|u| u.identifiers.contains(&variant.as_str())).collect();
                let low = variant.to_lowercase();
                let ci: Vec<&Unit> = all.iter().filter(|u| u.identifiers.iter().any(|i| i.to_lowercase() == low)).collect();
                let want: Option<&Unit> = if exact.len() == 1 {
                    Some(exact[0])
                } else if exact.len() > 1 {
                    None
                } else if ci.len() == 1 {
                    Some(ci[0])
                } else {
                    None
                };
                if exact.is_empty() {
                    ctx.nontrivial(hash_str(&format!("cv|{}", variant)));
                }
                match (want, units::resolve_unit(variant)) {
                    (Some(w), Ok(r)) if same_unit(w, &r) => Ok(()),
                    (None, Err(_)) => Ok(()),
                    (Some(w), Ok(r)) => fail!(format!("resolve-case:wrong-unit:{}", low), "{:?} resolves to {:?}, expected {:?}", variant, r.identifiers, w.identifiers),
                    (Some(w), Err(e)) => fail!(format!("resolve-case:rejected:{}", low), "{:?} is an unambiguous case variant of {:?} but is rejected: {}", variant, w.identifiers, e),
                    (None, Ok(r)) => fail!(
                        format!("resolve-case:guessed:{}", low),
                        "{:?} matches {} units case-insensitively ({} exactly) but resolves to {:?}",
                        variant,
                        ci.len(),
                        exact.len(),
                        r.identifiers
                    ),
                }
            }
            Case::Alias { first, ident, partner, v } => {
                ctx.label("alias-identical");
                ctx.nontrivial(hash_str(&format!("al|{}|{}|{:?}", ident, partner, v)));
                let a1 = conv(v.0, first, partner);
                let a2 = conv(v.0, ident, partner);
                let b1 = conv(v.0, partner, first);
                let b2 = conv(v.0, partner, ident);
                let same = |x: &Result<f64, String>, y: &Result<f64, String>| match (x, y) {
                    (Ok(p), Ok(q)) => p.to_bits() == q.to_bits() || (p.is_nan() && q.is_nan()),
                    (Err(_), Err(_)) => true,
                    _ => false,
                };
                if !same(&a1, &a2) || !same(&b1, &b2) {
                    fail!(format!("alias-differs:{}", ident), "identifiers {:?} and {:?} of one unit behave differently against {:?} at {:e}: {:?} vs {:?}; {:?} vs {:?}", first, ident, partner, v.0, a1, a2, b1, b2);
                }
                if a1.is_err() || b1.is_err() {
                    fail!(format!("same-category-rejected:{}", first), "convert({:e}, {:?}, {:?}) failed: {:?} {:?}", v.0, first, partner, a1, b1);
                }
                Ok(())
            }
            Case::IdentPair { ia, ib, fa, fb, same_category } => {
                ctx.label(if *same_category { "identifier-pair:same-category" } else { "identifier-pair:cross-category" });
                ctx.nontrivial(hash_str(&format!("ip|{}|{}", ia, ib)));
                let got = conv(7.25, ia, ib);
                if !*same_category {
                    if let Ok(w) = got {
                        fail!(format!("cross-category-converts:{}->{}", ia, ib), "convert(7.25, {:?}, {:?}) = {:e} although {:?} and {:?} are units of different categories", ia, ib, w, fa, fb);
                    }
                    return Ok(());
                }
                let want = conv(7.25, fa, fb);
                match (&got, &want) {
                    (Ok(p), Ok(q)) if p.to_bits() == q.to_bits() => Ok(()),
                    _ => fail!(format!("identifier-pair-differs:{}->{}", ia, ib), "convert(7.25, {:?}, {:?}) = {:?} but with the units' first identifiers convert(7.25, {:?}, {:?}) = {:?}", ia, ib, got, fa, fb, want),
                }
            }
            Case::Sequence { first, second } => {
                ctx.label("sequence:case-variant-after");
                ctx.nontrivial(hash_str(&format!("seq|{:?}|{:?}", first, second)));
                let (f, sd) = (first.clone(), second.clone());
                let fresh = std::thread::spawn(move || conv(7.25, &sd.0, &sd.1)).join().map_err(|_| crate::engine::Failure::new("sequence:panic", "conversion panicked".to_string()))?;
                let sd = second.clone();
                let after = std::thread::spawn(move || {
                    let _ = conv(7.25, &f.0, &f.1);
                    conv(7.25, &sd.0, &sd.1)
                })
                .join()
                .map_err(|_| crate::engine::Failure::new("sequence:panic", "conversion panicked".to_string()))?;
                let same = match (&fresh, &after) {
                    (Ok(p), Ok(q)) => p.to_bits() == q.to_bits(),
                    (Err(_), Err(_)) => true,
                    _ => false,
                };
                if !same {
                    fail!(
                        format!("sequence-dependent:{}->{}", second.0, second.1),
                        "convert(7.25, {:?}, {:?}) = {:?} in a fresh thread, but {:?} right after convert(7.25, {:?}, {:?}) in the same thread",
                        second.0, second.1, fresh, after, first.0, first.1
                    );
                }
                Ok(())
            }
            Case::Pair { a, b, v } => {
                ctx.label(if a == b { "self-conversion" } else { "there-and-back" });
                if a != b {
                    ctx.nontrivial(hash_str(&format!("p|{}|{}|{:?}", a, b, v)));
                }
                let (ua, ub) = (units::resolve_unit(a), units::resolve_unit(b));
                let (Ok(ua), Ok(ub)) = (ua, ub) else { fail!("harness:pair-unresolved", "{} / {}", a, b) };
                let temp = is_temperature(&ua) || is_temperature(&ub);
                let w = match conv(v.0, a, b) {
                    Ok(w) => w,
                    Err(e) => fail!(format!("same-category-rejected:{}->{}", a, b), "convert({:e}, {:?}, {:?}) failed: {}", v.0, a, b, e),
                };
                if a == b || same_unit(&ua, &ub) {
                    // converting a unit to itself is the identity: the value comes back as it is
                    if w.to_bits() != v.0.to_bits() {
                        fail!(format!("identity:{}", a), "convert({:e}, {:?}, {:?}) = {:e}: not the value itself", v.0, a, b, w);
                    }
                    return Ok(());
                }
                let back = match conv(w, b, a) {
                    Ok(x) => x,
                    Err(e) => fail!(format!("same-category-rejected:{}->{}", b, a), "{}", e),
                };
                let scale = v.0.abs().max(w.abs()).max(ua.convert_to_base(v.0).abs());
                // reciprocal units map 0 to infinity and back to 0
                if !close(back, v.0, temp, scale) {
                    fail!(format!("round-trip:{}->{}", a, b), "{:e} {} -> {:e} {} -> {:e} {}", v.0, a, w, b, back, a);
                }
                Ok(())
            }
            Case::Triple { a, b, c: cc, v } => {
                ctx.label("composition");
                if a != b && b != cc && a != cc {
                    ctx.nontrivial(hash_str(&format!("t|{}|{}|{}|{:?}", a, b, cc, v)));
                }
                let Ok(ua) = units::resolve_unit(a) else { fail!("harness:triple-unresolved", "{}", a) };
                let temp = ua.category == units::UnitCategory::Temperature;
                let ab = conv(v.0, a, b);
                let direct = conv(v.0, a, cc);
                let (Ok(ab), Ok(direct)) = (ab, direct) else { fail!(format!("same-category-rejected:{}", a), "conversion inside one category failed") };
                let abc = match conv(ab, b, cc) {
                    Ok(x) => x,
                    Err(e) => fail!(format!("same-category-rejected:{}->{}", b, cc), "{}", e),
                };
                let scale = v.0.abs().max(ab.abs()).max(direct.abs()).max(ua.convert_to_base(v.0).abs());
                if !close(abc, direct, temp, scale) {
                    fail!(format!("composition:{}->{}->{}", a, b, cc), "{:e} {} -> {} -> {} = {:e}, direct = {:e}", v.0, a, b, cc, abc, direct);
                }
                Ok(())
            }
            Case::Cross { a, b } => {
                ctx.label("cross-category");
                ctx.nontrivial(hash_str(&format!("x|{}|{}", a, b)));
                match conv(1.0, a, b) {
                    Err(_) => Ok(()),
                    Ok(x) => fail!(format!("cross-category-converts:{}->{}", a, b), "convert(1, {:?}, {:?}) = {:e} although the categories differ", a, b, x),
                }
            }
            Case::Unknown { text } => {
                ctx.label("unknown-identifier");
                let low = text.to_lowercase();
                let listed = units::get_all_units().iter().any(|u| u.identifiers.iter().any(|i| i.to_lowercase() == low));
                if listed {
                    return Ok(());
                }
                ctx.nontrivial(hash_str(&format!("u|{}", text)));
                if let Ok(u) = units::resolve_unit(text) {
                    fail!("unknown-identifier-resolved", "{:?} is not in the table but resolves to {:?}", text, u.identifiers);
                }
                if conv(1.0, text, "meters").is_ok() || conv(1.0, "meters", text).is_ok() || conv(1.0, text, text).is_ok() {
                    fail!("unknown-identifier-converted", "convert accepts unknown unit {:?}", text);
                }
                // through the evaluator's built-in, the same identifier on both sides included
                let sess = Sess::new();
                sess.bind("u", &s(text));
                for src in ["convert(5, u, u)", "convert(5, u, \"meters\")", "convert(5, \"meters\", u)"] {
                    if let Ok(v) = sess.probe(src) {
                        fail!("unknown-identifier-converted:built-in", "`{}` with u = {:?} (not a unit) gave {:?}", src, text, v);
                    }
                }
                Ok(())
            }
            Case::Prefix { prefixed, base, power } => {
                ctx.label("si-prefix-ratio");
                ctx.nontrivial(hash_str(&format!("pre|{}", prefixed)));
                let want = format!("1e{}", power).parse::<f64>().unwrap();
                match conv(1.0, prefixed, base) {
                    Ok(r) if (r - want).abs() <= 4.0 * f64::EPSILON * want => Ok(()),
                    other => fail!(format!("prefix-ratio:{}", prefixed), "convert(1, {:?}, {:?}) = {:?}, expected 10^{}", prefixed, base, other, power),
                }
            }
            Case::BuiltinText { a, b, v } => {
                ctx.label("convert-built-in-literal");
                if a.contains('"') || b.contains('"') || a.contains('\n') || b.contains('\n') {
                    return Ok(());
                }
                let sess = Sess::new();
                sess.bind("v", &num(v.0));
                let src = format!("convert(v, \"{}\", \"{}\")", a, b);
                let got = sess.probe(&src);
                let want = conv(v.0, a, b);
                match (&got, &want) {
                    (Ok(MV::Num(F(x))), Ok(y)) if x.to_bits() == y.to_bits() || (x.is_nan() && y.is_nan()) => Ok(()),
                    (Err(_), Err(_)) => Ok(()),
                    _ => fail!("built-in-differs:literal", "`{}` with v = {:e} gave {:?}, units::convert gave {:?}", src, v.0, got, want),
                }
            }
            Case::Builtin { a, b, v } => {
                ctx.label("convert-built-in");
                let sess = Sess::new();
                sess.bind("v", &num(v.0));
                sess.bind("a", &s(a));
                sess.bind("b", &s(b));
                let got = sess.probe("convert(v, a, b)");
                let want = conv(v.0, a, b);
                match (&got, &want) {
                    (Ok(MV::Num(F(x))), Ok(y)) if x.to_bits() == y.to_bits() || (x.is_nan() && y.is_nan()) => Ok(()),
                    (Err(_), Err(_)) => Ok(()),
                    _ => fail!("built-in-differs", "convert({:e}, {:?}, {:?}) built-in gave {:?}, units::convert gave {:?}", v.0, a, b, got, want),
                }
            }
        }
    }
}

fn title(s: &str) -> String {
    let mut out = String::new();
    let mut start = true;
    for ch in s.chars() {
        if start {
            out.extend(ch.to_uppercase());
        } else {
            out.push(ch);
        }
        start = ch == ' ';
    }
    out
}

/// all characters whose lower-case form is `low`
fn same_lowercase(low: &str) -> Vec<char> {
    use std::collections::HashMap;
    use std::sync::OnceLock;
    static MAP: OnceLock<HashMap<String, Vec<char>>> = OnceLock::new();
    MAP.get_or_init(|| {
        let mut m: HashMap<String, Vec<char>> = HashMap::new();
        for cp in 0u32..0x11_0000 {
            if let Some(c) = char::from_u32(cp) {
                let l: String = c.to_lowercase().collect();
                if l.chars().next() != Some(c) || l.chars().count() != 1 {
                    m.entry(l.clone()).or_default().push(c);
                }
                let _ = l;
            }
        }
        // a character is also in the class of its own lower-case form
        let keys: Vec<String> = m.keys().cloned().collect();
        for k in keys {
            let mut it = k.chars();
            if let (Some(c), None) = (it.next(), it.next()) {
                m.get_mut(&k).unwrap().push(c);
            }
        }
        m
    })
    .get(low)
    .cloned()
    .unwrap_or_default()
}

fn swapcase(s: &str) -> String {
    s.chars()
        .map(|c| if c.is_uppercase() { c.to_lowercase().collect::<String>() } else { c.to_uppercase().collect::<String>() })
        .collect()
}

pub fn run(ctx: &mut Ctx) {
    let all = units::get_all_units();
    let thorough = ctx.tier == crate::engine::Tier::Thorough;
    let mags: Vec<f64> = if thorough {
        let mut m = vec![0.0, 7.25, -7.25];
        for k in [-12, -9, -6, -3, 0, 3, 6, 9, 12] {
            let x = format!("1e{}", k).parse::<f64>().unwrap();
            m.push(x);
            m.push(-x);
        }
        m
    } else {
        vec![0.0, 1.0, -7.25, 1e-12, 1e12, 1e3]
    };
    let mut cases: Vec<Case> = Vec::new();
    for u in &all {
        let first = u.identifiers[0].to_string();
        for id in u.identifiers {
            cases.push(Case::Ident { first: first.clone(), ident: id.to_string() });
            let mut vars = vec![id.to_uppercase(), id.to_lowercase(), title(id), swapcase(id)];
            // every upper/lower pattern of short identifiers (symbols such as mA / MA, kb / kB)
            let chars: Vec<char> = id.chars().collect();
            if chars.len() <= 5 {
                for mask in 0u32..(1 << chars.len()) {
                    let v: String = chars
                        .iter()
                        .enumerate()
                        .map(|(i, c)| if mask >> i & 1 == 1 { c.to_uppercase().collect::<String>() } else { c.to_lowercase().collect::<String>() })
                        .collect();
                    vars.push(v);
                }
            }
            // every other character with the same lower-case form, one position at a time
            // (K / KELVIN SIGN for k, OHM SIGN for the omegas, ...): equal after lower-casing
            for (i, c) in chars.iter().enumerate() {
                let low: String = c.to_lowercase().collect();
                for alt in same_lowercase(&low) {
                    if alt != *c {
                        let v: String = chars.iter().enumerate().map(|(j, d)| if i == j { alt } else { *d }).collect();
                        vars.push(v);
                    }
                }
            }
            vars.sort();
            vars.dedup();
            let partner0 = all.iter().find(|w| w.category == u.category && !same_unit(w, u)).unwrap_or(u).identifiers[0].to_string();
            for v in vars {
                // the built-in must treat every spelling exactly like units::convert does
                cases.push(Case::Builtin { a: v.clone(), b: partner0.clone(), v: F(7.25) });
                cases.push(Case::CaseVariant { variant: v });
            }
            // every listed identifier through the built-in: as source, as target, against itself,
            // bound to a name and written as a literal
            for (x, y) in [(id.to_string(), partner0.clone()), (partner0.clone(), id.to_string()), (id.to_string(), id.to_string()), (id.to_string(), first.clone())] {
                cases.push(Case::Builtin { a: x.clone(), b: y.clone(), v: F(-7.25) });
                cases.push(Case::BuiltinText { a: x, b: y, v: F(1.0) });
            }
        }
        let partner = all.iter().find(|w| w.category == u.category && !same_unit(w, u)).unwrap_or(u);
        for id in u.identifiers.iter().skip(1) {
            for v in [1.0, -7.25, 1e6] {
                cases.push(Case::Alias { first: first.clone(), ident: id.to_string(), partner: partner.identifiers[0].to_string(), v: F(v) });
            }
        }
    }
    for a in &all {
        for b in &all {
            let (ia, ib) = (a.identifiers[0].to_string(), b.identifiers[0].to_string());
            if a.category == b.category {
                for v in &mags {
                    cases.push(Case::Pair { a: ia.clone(), b: ib.clone(), v: F(*v) });
                }
                cases.push(Case::Builtin { a: ia.clone(), b: ib.clone(), v: F(7.25) });
                for c in all.iter().filter(|c| c.category == a.category) {
                    for v in &mags {
                        cases.push(Case::Triple { a: ia.clone(), b: ib.clone(), c: c.identifiers[0].to_string(), v: F(*v) });
                    }
                }
            } else {
                cases.push(Case::Cross { a: ia.clone(), b: ib.clone() });
                // a short alias too (e.g. "m" vs "min")
                let (sa, sb) = (a.identifiers[a.identifiers.len() - 1], b.identifiers[b.identifiers.len() - 1]);
                cases.push(Case::Cross { a: sa.to_string(), b: sb.to_string() });
            }
        }
    }
    for a in &all {
        for b in &all {
            for ia in a.identifiers {
                for ib in b.identifiers {
                    cases.push(Case::IdentPair { ia: ia.to_string(), ib: ib.to_string(), fa: a.identifiers[0].to_string(), fb: b.identifiers[0].to_string(), same_category: a.category == b.category });
                }
            }
        }
    }
    // spellings that differ only by letter case: identifiers of different units, and every
    // upper / lower pattern of short identifiers (ambiguous or unknown spellings included)
    {
        let ids: Vec<String> = all.iter().flat_map(|u| u.identifiers.iter().map(|i| i.to_string())).collect();
        let mut groups: std::collections::BTreeMap<String, Vec<String>> = std::collections::BTreeMap::new();
        for id in &ids {
            let e = groups.entry(id.to_lowercase()).or_default();
            if !e.contains(id) {
                e.push(id.clone());
            }
        }
        for (low, members) in groups.iter_mut() {
            if members.len() < 2 {
                continue;
            }
            let chars: Vec<char> = low.chars().collect();
            if chars.len() <= 4 {
                for mask in 0u32..(1 << chars.len()) {
                    let v: String = chars.iter().enumerate().map(|(i, c)| if mask >> i & 1 == 1 { c.to_uppercase().collect::<String>() } else { c.to_string() }).collect();
                    if !members.contains(&v) {
                        members.push(v);
                    }
                }
            }
            // a partner unit of the first member's category, so that conversions can succeed
            let unit = all.iter().find(|u| u.identifiers.iter().any(|i| *i == members[0])).unwrap();
            let partner = all.iter().find(|w| w.category == unit.category && !same_unit(w, unit)).unwrap_or(unit).identifiers[0].to_string();
            for x in members.iter() {
                for y in members.iter() {
                    if x != y {
                        cases.push(Case::Sequence { first: (x.clone(), partner.clone()), second: (y.clone(), partner.clone()) });
                        cases.push(Case::Sequence { first: (partner.clone(), x.clone()), second: (partner.clone(), y.clone()) });
                        cases.push(Case::Sequence { first: (x.clone(), x.clone()), second: (y.clone(), y.clone()) });
                    }
                }
            }
        }
    }
    for (p, b, k) in prefix_pairs() {
        cases.push(Case::Prefix { prefixed: p, base: b, power: k });
    }
    cases.push(Case::Builtin { a: "meters".into(), b: "seconds".into(), v: F(1.0) });
    cases.push(Case::Builtin { a: "nonsense".into(), b: "meters".into(), v: F(1.0) });
    ctx.run_enum(&Units, cases.into_iter(), true);

    // random: unknown identifiers, and random magnitudes on random same-category pairs/triples
    let ids: Vec<String> = all.iter().flat_map(|u| u.identifiers.iter().map(|s| s.to_string())).collect();
    let ids2 = ids.clone();
    let unknown = prop_oneof![
        "[a-zA-Z°μ ]{1,12}".prop_map(|t| Case::Unknown { text: t }),
        (prop::sample::select(ids.clone()), "[a-z]{1,2}").prop_map(|(i, sfx)| Case::Unknown { text: format!("{}{}", i, sfx) }),
        (prop::sample::select(ids2), any::<u16>()).prop_map(|(i, k)| {
            // drop one character
            let cs: Vec<char> = i.chars().collect();
            let d = crate::engine::pick_idx(k, cs.len());
            Case::Unknown { text: cs.iter().enumerate().filter(|(j, _)| *j != d).map(|(_, c)| *c).collect() }
        }),
        prop::sample::select(vec!["", " ", "meter ", " meters", "m/s2", "kilo", "square", "per"]).prop_map(|t| Case::Unknown { text: t.to_string() }),
    ];
    ctx.run_random(&Units, unknown, ctx.tier.pick(20_000, 300_000));

    let groups: Vec<Vec<String>> = {
        let mut g: Vec<(units::UnitCategory, Vec<String>)> = Vec::new();
        for u in &all {
            match g.iter_mut().find(|(c, _)| *c == u.category) {
                Some((_, v)) => v.push(u.identifiers[0].to_string()),
                None => g.push((u.category, vec![u.identifiers[0].to_string()])),
            }
        }
        g.into_iter().map(|(_, v)| v).collect()
    };
    let mag = prop_oneof![
        crate::gen_::small_f64(),
        (-12i32..13, 1u32..1000).prop_map(|(k, m)| m as f64 * 10f64.powi(k)),
        (-12i32..13, 1u32..1000).prop_map(|(k, m)| -(m as f64) * 10f64.powi(k)),
        (-1e12f64..1e12),
    ];
    let g2 = groups.clone();
    let triples = (0..groups.len(), any::<u16>(), any::<u16>(), any::<u16>(), mag).prop_map(move |(g, i, j, k, v)| {
        let grp = &g2[g];
        let n = grp.len();
        let pi = |x| crate::engine::pick_idx(x, n);
        if k % 3 == 0 {
            Case::Pair { a: grp[pi(i)].clone(), b: grp[pi(j)].clone(), v: F(v) }
        } else {
            Case::Triple { a: grp[pi(i)].clone(), b: grp[pi(j)].clone(), c: grp[pi(k)].clone(), v: F(v) }
        }
    });
    ctx.run_random(&Units, triples, ctx.tier.pick(100_000, 1_500_000));
}
