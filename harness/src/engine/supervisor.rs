//! Supervisor: spawns worker processes (one per shard), restarts crashed ones past the
//! crashing case, merges shard results, classifies failures against known_findings.json,
//! writes evidence and replay files, prints KNOWN-FINDING / VIOLATION lines.

use super::{KnownFile, RecordedFailure, ShardStats, Tier, hash_str};
use std::collections::{BTreeMap, BTreeSet, HashSet};
use std::os::unix::process::ExitStatusExt;
use std::process::{Command, Stdio};
use std::time::Instant;

pub struct RunSpec {
    pub prop: String,
    pub tier: Tier,
    pub seed: u64,
    pub nshards: usize,
    pub rule: String,
    pub assumptions: Vec<String>,
    pub verif_dir: String,
}

struct ShardRun {
    stats: Vec<ShardStats>, // one per attempt
    crashes: Vec<RecordedFailure>,
    resource: u64,
    gave_up: bool,
}

fn run_dir(spec: &RunSpec) -> String {
    format!("{}/.build/run/{}-{}", spec.verif_dir, spec.prop, spec.tier.name())
}

fn spawn_worker(spec: &RunSpec, shard: usize, attempt: u32, budget: f64) -> std::process::Child {
    let dir = run_dir(spec);
    let exe = std::env::current_exe().expect("current_exe");
    Command::new(exe)
        .arg("worker")
        .arg(&spec.prop)
        .arg("--tier")
        .arg(spec.tier.name())
        .arg("--seed")
        .arg(spec.seed.to_string())
        .arg("--shard")
        .arg(shard.to_string())
        .arg("--nshards")
        .arg(spec.nshards.to_string())
        .arg("--attempt")
        .arg(attempt.to_string())
        .arg("--budget")
        .arg(format!("{}", budget))
        .arg("--journal")
        .arg(format!("{}/journal-{}", dir, shard))
        .arg("--out")
        .arg(format!("{}/shard-{}-{}.json", dir, shard, attempt))
        .stdin(Stdio::null())
        .stdout(Stdio::inherit())
        .stderr(Stdio::inherit())
        .spawn()
        .expect("spawn worker")
}

fn read_stats(path: &str) -> Option<ShardStats> {
    let s = std::fs::read_to_string(path).ok()?;
    serde_json::from_str(&s).ok()
}

pub fn run(spec: RunSpec) -> i32 {
    let t0 = Instant::now();
    let dir = run_dir(&spec);
    let _ = std::fs::remove_dir_all(&dir);
    std::fs::create_dir_all(&dir).expect("run dir");
    let known = super::load_known(&format!("{}/known_findings.json", spec.verif_dir));

    let mut shards: Vec<ShardRun> = Vec::new();
    let mut resource_examples: Vec<String> = Vec::new();
    // run all shards concurrently; each shard is a small state machine of attempts
    let mut children: Vec<Option<(std::process::Child, u32)>> = Vec::new();
    for i in 0..spec.nshards {
        children.push(Some((spawn_worker(&spec, i, 0, 1.0), 0)));
        shards.push(ShardRun {
            stats: vec![],
            crashes: vec![],
            resource: 0,
            gave_up: false,
        });
    }
    loop {
        let mut active = false;
        for i in 0..spec.nshards {
            let Some((child, attempt)) = children[i].as_mut() else {
                continue;
            };
            match child.try_wait() {
                Ok(None) => {
                    active = true;
                }
                Ok(Some(status)) => {
                    let attempt = *attempt;
                    let out = format!("{}/shard-{}-{}.json", dir, i, attempt);
                    let st = read_stats(&out);
                    let finished = st.as_ref().map(|s| s.finished).unwrap_or(false);
                    if let Some(s) = st.clone() {
                        shards[i].stats.push(s);
                    }
                    if status.success() && finished {
                        children[i] = None;
                        continue;
                    }
                    // crashed or killed
                    let journal = format!("{}/journal-{}", dir, i);
                    let marker = std::fs::read_to_string(format!("{}.marker", journal)).ok();
                    let _ = std::fs::remove_file(format!("{}.marker", journal));
                    let code = status.code();
                    let signal = status.signal();
                    let resource = marker.is_some() || code == Some(3);
                    let jl = std::fs::read_to_string(&journal).unwrap_or_default();
                    let (check, input) = match serde_json::from_str::<serde_json::Value>(&jl) {
                        Ok(v) => (
                            v.get("check").and_then(|c| c.as_str()).unwrap_or("?").to_string(),
                            v.get("input").cloned().unwrap_or(serde_json::Value::Null),
                        ),
                        Err(_) => ("?".to_string(), serde_json::Value::Null),
                    };
                    if resource {
                        shards[i].resource += 1;
                        if resource_examples.len() < 6 {
                            resource_examples.push(format!("{}: {}", check, truncate(&input.to_string(), 700)));
                        }
                        eprintln!(
                            "bv: shard {} attempt {}: resource limit ({}) in check {}",
                            i,
                            attempt,
                            marker.unwrap_or_else(|| "exit 3".into()),
                            check
                        );
                    } else {
                        let how = match (signal, code) {
                            (Some(s), _) => format!("signal{}", s),
                            (None, Some(c)) => format!("exit{}", c),
                            _ => "unknown".to_string(),
                        };
                        shards[i].crashes.push(RecordedFailure {
                            check: check.clone(),
                            sig: format!("abort:{}:{}", how, check),
                            msg: format!(
                                "worker process died ({}) while running this case of check {}",
                                how, check
                            ),
                            input,
                            shrunk: false,
                        });
                    }
                    // restart with the remaining budget
                    let progress = st
                        .as_ref()
                        .map(|s| {
                            if s.planned == 0 {
                                0.0
                            } else {
                                (s.evaluations as f64 / s.planned as f64).min(1.0)
                            }
                        })
                        .unwrap_or(0.0);
                    if attempt >= 6 {
                        shards[i].gave_up = true;
                        children[i] = None;
                    } else {
                        let budget = (1.0 - progress).max(0.1);
                        children[i] = Some((spawn_worker(&spec, i, attempt + 1, budget), attempt + 1));
                        active = true;
                    }
                }
                Err(_) => {
                    children[i] = None;
                }
            }
        }
        if !active {
            break;
        }
        std::thread::sleep(std::time::Duration::from_millis(30));
    }

    // ---- merge ---------------------------------------------------------------------------
    let mut total = ShardStats::default();
    let mut all_hashes: HashSet<u64> = HashSet::new();
    let mut truncated = false;
    let mut failures: Vec<RecordedFailure> = Vec::new();
    let mut resource = 0;
    let mut gave_up = false;
    let mut exhaustive: BTreeMap<String, usize> = BTreeMap::new();
    for (i, sh) in shards.iter().enumerate() {
        resource += sh.resource;
        gave_up |= sh.gave_up;
        failures.extend(sh.crashes.iter().cloned());
        for (a, st) in sh.stats.iter().enumerate() {
            total.evaluations += st.evaluations;
            total.nontrivial += st.nontrivial;
            total.discarded += st.discarded;
            total.planned += st.planned;
            for (k, v) in &st.labels {
                *total.labels.entry(k.clone()).or_insert(0) += v;
            }
            for (k, v) in &st.per_check {
                *total.per_check.entry(k.clone()).or_insert(0) += v;
            }
            for (k, v) in &st.excluded_known {
                *total.excluded_known.entry(k.clone()).or_insert(0) += v;
            }
            for (k, v) in &st.known_examples {
                total.known_examples.entry(k.clone()).or_insert_with(|| v.clone());
            }
            for n in &st.notes {
                if !total.notes.contains(n) {
                    total.notes.push(n.clone());
                }
            }
            for r in &st.replayed {
                total.replayed.push(r.clone());
            }
            if st.finished {
                for c in &st.exhaustive_checks {
                    *exhaustive.entry(c.clone()).or_insert(0) += 1;
                }
            }
            failures.extend(st.violations.iter().cloned());
            if total.samples.len() < 16 {
                for s in st.samples.iter().take(3) {
                    total.samples.push(s.clone());
                }
            }
            truncated |= st.hashes_truncated;
            let hp = format!("{}/shard-{}-{}.json.hashes", dir, i, a);
            if let Ok(bytes) = std::fs::read(&hp) {
                for ch in bytes.chunks_exact(8) {
                    all_hashes.insert(u64::from_le_bytes(ch.try_into().unwrap()));
                }
            }
        }
    }
    let exhaustive_all: Vec<String> = exhaustive
        .iter()
        .filter(|(_, n)| **n >= spec.nshards)
        .map(|(k, _)| k.clone())
        .collect();

    // ---- classify ------------------------------------------------------------------------
    let known_sigs: BTreeMap<String, &super::KnownFinding> = known
        .known
        .iter()
        .filter(|k| k.property == spec.prop)
        .map(|k| (k.signature.clone(), k))
        .collect();
    let mut violations: Vec<RecordedFailure> = Vec::new();
    let mut seen = BTreeSet::new();
    for f in failures {
        if known_sigs.contains_key(&f.sig) {
            *total.excluded_known.entry(f.sig.clone()).or_insert(0) += 1;
            total.known_examples.entry(f.sig.clone()).or_insert(f);
            continue;
        }
        if seen.insert(f.sig.clone()) {
            violations.push(f);
        }
    }

    let replay_dir = format!("{}/evidence/replay", spec.verif_dir);
    let _ = std::fs::create_dir_all(&replay_dir);
    // replay files of earlier runs of this property are stale now
    if let Ok(rd) = std::fs::read_dir(&replay_dir) {
        for e in rd.flatten() {
            if e.file_name().to_string_lossy().starts_with(&format!("{}-", spec.prop)) {
                let _ = std::fs::remove_file(e.path());
            }
        }
    }
    let mut lines: Vec<String> = Vec::new();
    for (sig, k) in &known_sigs {
        let n = total.excluded_known.get(sig).copied().unwrap_or(0);
        let seen_now = n > 0
            || total
                .replayed
                .iter()
                .any(|(src, _, out)| src == &format!("known:{}", sig) && out.starts_with("fails"));
        if seen_now {
            lines.push(format!(
                "KNOWN-FINDING: property={} {} [signature {}; {} case(s) this run]",
                spec.prop, k.what, sig, n
            ));
        } else {
            total.notes.push(format!(
                "listed finding {} was not reproduced in this run",
                sig
            ));
        }
    }
    let mut violation_lines = Vec::new();
    for v in &violations {
        let path = format!(
            "{}/{}-{:016x}.json",
            replay_dir,
            spec.prop,
            hash_str(&format!("{}|{}", v.check, v.sig))
        );
        let body = serde_json::json!({
            "property": spec.prop,
            "check": v.check,
            "signature": v.sig,
            "message": v.msg,
            "shrunk": v.shrunk,
            "input": v.input,
        });
        let _ = std::fs::write(&path, serde_json::to_string_pretty(&body).unwrap());
        violation_lines.push(format!("VIOLATION property={} replay={}", spec.prop, path));
        eprintln!(
            "--- violation: check={} signature={}\n    {}\n    input: {}",
            v.check,
            truncate(&v.sig, 200),
            truncate(&v.msg, 700),
            truncate(&v.input.to_string(), 500)
        );
    }

    // ---- evidence ------------------------------------------------------------------------
    let wall = t0.elapsed().as_secs_f64();
    let discard_ratio = if total.evaluations + total.discarded > 0 {
        total.discarded as f64 / (total.evaluations + total.discarded) as f64
    } else {
        0.0
    };
    let mut rule = spec.rule.clone();
    if truncated {
        rule.push_str(&format!(
            " (distinct hashes capped at {} per shard: distinct_nontrivial is a lower bound)",
            super::MAX_HASHES_PER_SHARD
        ));
    }
    let mut samples = total.samples.clone();
    if samples.is_empty() {
        samples.push(serde_json::json!("no case completed"));
    }
    let evidence = serde_json::json!({
        "property_id": spec.prop,
        "tier": spec.tier.name(),
        "seed": spec.seed,
        "level": "exploration",
        "coverage": {
            "evaluations": total.evaluations,
            "distinct_nontrivial": all_hashes.len(),
            "nontrivial_evaluations": total.nontrivial,
            "rule": rule,
            "samples": samples,
            "per_check": total.per_check,
            "labels": total.labels,
            "excluded_known": total.excluded_known,
            "discarded": total.discarded,
            "resource_inconclusive": resource,
            "resource_inconclusive_examples": resource_examples,
            "exhaustive": !exhaustive_all.is_empty() && exhaustive_all.len() == total.per_check.len(),
            "exhaustive_checks": exhaustive_all,
            "shards": spec.nshards,
            "regressions_replayed": total.replayed,
            "notes": total.notes,
            "violation_signatures": violations.iter().map(|v| v.sig.clone()).collect::<Vec<_>>(),
        },
        "assumptions": spec.assumptions,
        "wall_s": wall,
        "violations": violations.len(),
    });
    let ev_dir = format!("{}/evidence", spec.verif_dir);
    let _ = std::fs::create_dir_all(&ev_dir);
    let ev_path = format!("{}/{}.json", ev_dir, spec.prop);
    std::fs::write(&ev_path, serde_json::to_string_pretty(&evidence).unwrap()).expect("evidence");

    for l in &lines {
        println!("{}", l);
    }
    for l in &violation_lines {
        println!("{}", l);
    }
    println!(
        "bv: property={} tier={} seed={} evaluations={} distinct_nontrivial={} known_excluded={} violations={} discarded={} wall={:.1}s",
        spec.prop,
        spec.tier.name(),
        spec.seed,
        total.evaluations,
        all_hashes.len(),
        total.excluded_known.values().sum::<u64>(),
        violations.len(),
        total.discarded,
        wall
    );
    if !violations.is_empty() {
        return 1;
    }
    if gave_up {
        eprintln!("bv: INCONCLUSIVE: a worker kept hitting resource limits");
        return 2;
    }
    if discard_ratio > 0.05 && total.discarded > 50 {
        eprintln!(
            "bv: INCONCLUSIVE: generator unhealthy, {:.1}% of generated cases were discarded",
            discard_ratio * 100.0
        );
        return 2;
    }
    if total.evaluations == 0 {
        eprintln!("bv: INCONCLUSIVE: no case was evaluated");
        return 2;
    }
    0
}

fn truncate(s: &str, n: usize) -> String {
    if s.len() <= n {
        s.to_string()
    } else {
        let mut cut = n;
        while !s.is_char_boundary(cut) {
            cut -= 1;
        }
        format!("{}…", &s[..cut])
    }
}

/// Replay one file in-process (strict: known findings are reported as failures too).
pub fn replay_file(prop: &str, path: &str, verif_dir: &str) -> i32 {
    let body: serde_json::Value = match std::fs::read_to_string(path)
        .ok()
        .and_then(|s| serde_json::from_str(&s).ok())
    {
        Some(v) => v,
        None => {
            eprintln!("bv: cannot read replay file {}", path);
            return 2;
        }
    };
    let check = body.get("check").and_then(|c| c.as_str()).unwrap_or("").to_string();
    let input = body.get("input").cloned().unwrap_or(serde_json::Value::Null);
    let known: KnownFile = super::load_known(&format!("{}/known_findings.json", verif_dir));
    let mut ctx = super::Ctx::new(
        prop,
        Tier::Quick,
        1,
        0,
        1,
        0,
        1.0,
        super::Mode::Replay {
            check: check.clone(),
            input,
            strict: true,
        },
        &known,
        None,
        None,
    );
    crate::props::run(prop, &mut ctx);
    match ctx.replay_outcome.take() {
        None => {
            eprintln!("bv: no check named {:?} in property {}", check, prop);
            2
        }
        Some(Ok(())) => {
            println!("bv: replay of {} passed (property holds on this input)", path);
            0
        }
        Some(Err(f)) => {
            eprintln!("--- replay fails: signature={}\n    {}", f.sig, f.msg);
            println!("VIOLATION property={} replay={}", prop, path);
            1
        }
    }
}
