//! Subprocess runner for the real `blots` binary: memory / stack / time limited.

use std::io::{Read, Write};
use std::os::unix::process::{CommandExt, ExitStatusExt};
use std::process::{Command, Stdio};
use std::time::{Duration, Instant};

#[derive(Debug, Clone)]
pub struct ProcResult {
    pub code: Option<i32>,
    pub signal: Option<i32>,
    pub stdout: String,
    pub stderr: String,
    pub timed_out: bool,
    pub wall_ms: u64,
}

impl ProcResult {
    pub fn describe(&self) -> String {
        if self.timed_out {
            "timeout".into()
        } else if let Some(s) = self.signal {
            format!("signal {}", s)
        } else {
            format!("exit {}", self.code.unwrap_or(-1))
        }
    }
}

pub struct Limits {
    pub mem_bytes: u64,
    pub stack_bytes: u64,
    pub timeout: Duration,
}

impl Default for Limits {
    fn default() -> Self {
        Limits {
            mem_bytes: 4 << 30,
            stack_bytes: 8 << 20,
            timeout: Duration::from_secs(30),
        }
    }
}

pub fn run(exe: &str, args: &[String], stdin: Option<&[u8]>, cwd: Option<&str>, lim: &Limits) -> std::io::Result<ProcResult> {
    run_paced(exe, args, stdin, cwd, lim, None)
}

/// like `run`; with `pace = Some((at, pause))` the producer of stdin is slow: it writes the
/// first `at` bytes, waits `pause`, then writes the rest and closes the pipe
pub fn run_paced(exe: &str, args: &[String], stdin: Option<&[u8]>, cwd: Option<&str>, lim: &Limits, pace: Option<(usize, Duration)>) -> std::io::Result<ProcResult> {
    let mut cmd = Command::new(exe);
    cmd.args(args);
    if let Some(d) = cwd {
        cmd.current_dir(d);
    }
    cmd.env("NO_COLOR", "1");
    cmd.stdin(if stdin.is_some() { Stdio::piped() } else { Stdio::null() });
    cmd.stdout(Stdio::piped());
    cmd.stderr(Stdio::piped());
    let mem = lim.mem_bytes;
    let stack = lim.stack_bytes;
    unsafe {
        cmd.pre_exec(move || {
            let l = libc::rlimit { rlim_cur: mem, rlim_max: mem };
            libc::setrlimit(libc::RLIMIT_AS, &l);
            let s = libc::rlimit { rlim_cur: stack, rlim_max: stack };
            libc::setrlimit(libc::RLIMIT_STACK, &s);
            let c = libc::rlimit { rlim_cur: 0, rlim_max: 0 };
            libc::setrlimit(libc::RLIMIT_CORE, &c);
            Ok(())
        });
    }
    let t0 = Instant::now();
    let mut child = cmd.spawn()?;
    if let Some(data) = stdin {
        if let Some(mut si) = child.stdin.take() {
            match pace {
                None => {
                    let _ = si.write_all(data);
                }
                Some((at, pause)) => {
                    let data = data.to_vec();
                    std::thread::spawn(move || {
                        let at = at.min(data.len());
                        let _ = si.write_all(&data[..at]);
                        let _ = si.flush();
                        std::thread::sleep(pause);
                        let _ = si.write_all(&data[at..]);
                    });
                }
            }
        }
    }
    // read stdout / stderr on threads so a chatty child cannot block
    let mut so = child.stdout.take().unwrap();
    let mut se = child.stderr.take().unwrap();
    let h1 = std::thread::spawn(move || {
        let mut b = Vec::new();
        let _ = so.read_to_end(&mut b);
        b
    });
    let h2 = std::thread::spawn(move || {
        let mut b = Vec::new();
        let _ = se.read_to_end(&mut b);
        b
    });
    let mut timed_out = false;
    let status = loop {
        match child.try_wait()? {
            Some(s) => break s,
            None => {
                if t0.elapsed() > lim.timeout {
                    timed_out = true;
                    let _ = child.kill();
                    break child.wait()?;
                }
                std::thread::sleep(Duration::from_millis(2));
            }
        }
    };
    let out = h1.join().unwrap_or_default();
    let err = h2.join().unwrap_or_default();
    Ok(ProcResult {
        code: status.code(),
        signal: status.signal(),
        stdout: String::from_utf8_lossy(&out).into_owned(),
        stderr: String::from_utf8_lossy(&err).into_owned(),
        timed_out,
        wall_ms: t0.elapsed().as_millis() as u64,
    })
}

/// unique scratch directory under /verif/.build/scratch (removed by the caller)
pub fn scratch_dir(tag: &str) -> String {
    use std::sync::atomic::{AtomicU64, Ordering};
    static N: AtomicU64 = AtomicU64::new(0);
    let base = std::env::var("BV_VERIF_DIR").unwrap_or_else(|_| "/verif".into());
    let d = format!("{}/.build/scratch/{}-{}-{}", base, tag, std::process::id(), N.fetch_add(1, Ordering::Relaxed));
    let _ = std::fs::create_dir_all(&d);
    d
}


/// Run `exe` interactively on a pseudo-terminal (stdin, stdout and stderr are the terminal, so
/// the CLI takes its interactive path), type `lines` one after the other, end the session with
/// Ctrl-D and collect everything the terminal showed. Limits as in `run`.
pub fn run_pty(exe: &str, lines: &[String], lim: &Limits) -> std::io::Result<ProcResult> {
    use std::os::fd::FromRawFd;
    let (mut master, mut slave): (libc::c_int, libc::c_int) = (0, 0);
    let rc = unsafe { libc::openpty(&mut master, &mut slave, std::ptr::null_mut(), std::ptr::null(), std::ptr::null()) };
    if rc != 0 {
        return Err(std::io::Error::last_os_error());
    }
    let mut cmd = Command::new(exe);
    cmd.env("TERM", "dumb").env("NO_COLOR", "1");
    unsafe {
        cmd.stdin(Stdio::from_raw_fd(libc::dup(slave)));
        cmd.stdout(Stdio::from_raw_fd(libc::dup(slave)));
        cmd.stderr(Stdio::from_raw_fd(libc::dup(slave)));
    }
    let (mem, stack) = (lim.mem_bytes, lim.stack_bytes);
    unsafe {
        cmd.pre_exec(move || {
            libc::setsid();
            libc::ioctl(0, libc::TIOCSCTTY as _, 0);
            let l = libc::rlimit { rlim_cur: mem, rlim_max: mem };
            libc::setrlimit(libc::RLIMIT_AS, &l);
            let s = libc::rlimit { rlim_cur: stack, rlim_max: stack };
            libc::setrlimit(libc::RLIMIT_STACK, &s);
            let c = libc::rlimit { rlim_cur: 0, rlim_max: 0 };
            libc::setrlimit(libc::RLIMIT_CORE, &c);
            Ok(())
        });
    }
    let t0 = Instant::now();
    let mut child = cmd.spawn()?;
    unsafe { libc::close(slave) };
    // non-blocking reads from the terminal
    unsafe {
        let fl = libc::fcntl(master, libc::F_GETFL);
        libc::fcntl(master, libc::F_SETFL, fl | libc::O_NONBLOCK);
    }
    let mut out: Vec<u8> = Vec::new();
    let mut pump = |out: &mut Vec<u8>| {
        let mut buf = [0u8; 8192];
        loop {
            let n = unsafe { libc::read(master, buf.as_mut_ptr() as *mut libc::c_void, buf.len()) };
            if n <= 0 {
                break;
            }
            out.extend_from_slice(&buf[..n as usize]);
        }
    };
    let write_all = |data: &[u8]| {
        let mut off = 0;
        let t = Instant::now();
        while off < data.len() && t.elapsed() < Duration::from_secs(5) {
            let n = unsafe { libc::write(master, data[off..].as_ptr() as *const libc::c_void, data.len() - off) };
            if n > 0 {
                off += n as usize;
            } else {
                std::thread::sleep(Duration::from_millis(2));
            }
        }
    };
    std::thread::sleep(Duration::from_millis(150));
    pump(&mut out);
    let mut status = None;
    for line in lines {
        write_all(line.as_bytes());
        write_all(b"\r");
        // give the line time to be evaluated: until the output has been quiet for a moment
        let mut quiet = 0;
        while quiet < 12 && t0.elapsed() < lim.timeout {
            let before = out.len();
            std::thread::sleep(Duration::from_millis(25));
            pump(&mut out);
            quiet = if out.len() == before { quiet + 1 } else { 0 };
            if let Some(s) = child.try_wait()? {
                status = Some(s);
                break;
            }
        }
        if status.is_some() {
            break;
        }
    }
    let mut timed_out = false;
    if status.is_none() {
        write_all(&[4u8]); // Ctrl-D
        let status_wait = loop {
            pump(&mut out);
            match child.try_wait()? {
                Some(s) => break s,
                None => {
                    if t0.elapsed() > lim.timeout {
                        timed_out = true;
                        let _ = child.kill();
                        break child.wait()?;
                    }
                    std::thread::sleep(Duration::from_millis(10));
                    write_all(&[4u8]);
                }
            }
        };
        status = Some(status_wait);
    }
    pump(&mut out);
    unsafe { libc::close(master) };
    let status = status.unwrap();
    Ok(ProcResult {
        code: status.code(),
        signal: status.signal(),
        stdout: String::from_utf8_lossy(&out).into_owned(),
        stderr: String::new(),
        timed_out,
        wall_ms: t0.elapsed().as_millis() as u64,
    })
}
