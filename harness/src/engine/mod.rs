//! Engine: worker context (case accounting, journal, watchdog, known-finding
//! classification, proptest driver with shrinking), shard result files.
//!
//! One run of a property = supervisor process + N worker processes (`bv worker ...`).
//! The code in `props::*` only sees `Ctx`.

pub mod proc;
pub mod supervisor;

use proptest::strategy::{Strategy, ValueTree};
use proptest::test_runner::{Config, RngAlgorithm, RngSeed, TestCaseError, TestError, TestRunner};
use serde::de::DeserializeOwned;
use serde::{Deserialize, Serialize};
use std::collections::{BTreeMap, HashSet};
use std::fmt::Debug;
use std::io::Write;
use std::os::unix::fs::FileExt;
use std::panic::{AssertUnwindSafe, catch_unwind};
use std::sync::atomic::{AtomicU64, Ordering};
use std::time::Instant;

#[derive(Clone, Copy, Debug, PartialEq, Eq, Serialize, Deserialize)]
pub enum Tier {
    Quick,
    Thorough,
}

impl Tier {
    pub fn name(self) -> &'static str {
        match self {
            Tier::Quick => "quick",
            Tier::Thorough => "thorough",
        }
    }
    /// pick by tier
    pub fn pick<T>(self, quick: T, thorough: T) -> T {
        match self {
            Tier::Quick => quick,
            Tier::Thorough => thorough,
        }
    }
}

/// Multiplier for the random case counts of the thorough tier (the counts written next to each
/// strategy are the base); chosen so that every thorough command runs for roughly 5-8 minutes
/// on 16 cores. BV_THOROUGH_SCALE multiplies it further (deeper campaigns, or <1 for a trial).
pub fn thorough_scale(prop: &str) -> f64 {
    let base = match prop {
        "C01" => 2.5,
        "C02" => 1.5,
        "C03" => 3.0,
        "C04" => 2.5,
        "C05" => 10.0,
        "C06" => 15.0,
        "C07" | "C08" => 3.0,
        "C09" => 5.0,
        "C10" => 7.0,
        "C11" => 20.0,
        "C12" => 10.0,
        "C13" => 12.0,
        "C14" => 8.0,
        "C15" => 5.0,
        "C16" => 10.0,
        "C17" => 2.5,
        "C18" => 10.0,
        "C19" => 12.0,
        "C20" => 3.0,
        _ => 1.0,
    };
    let extra = std::env::var("BV_THOROUGH_SCALE").ok().and_then(|s| s.parse::<f64>().ok()).unwrap_or(1.0);
    base * extra
}

/// An oracle failure on one case.
#[derive(Clone, Debug, Serialize, Deserialize)]
pub struct Failure {
    /// Stable signature: names the root-cause class, used to key known findings.
    pub sig: String,
    /// Human-readable description (observed vs expected).
    pub msg: String,
}

impl Failure {
    pub fn new(sig: impl Into<String>, msg: impl Into<String>) -> Self {
        let mut msg: String = msg.into();
        if msg.len() > 1500 {
            let mut cut = 1500;
            while !msg.is_char_boundary(cut) {
                cut -= 1;
            }
            msg.truncate(cut);
            msg.push_str("…[truncated]");
        }
        Failure {
            sig: sig.into(),
            msg,
        }
    }
}

pub type Outcome = Result<(), Failure>;

#[macro_export]
macro_rules! fail {
    ($sig:expr, $($arg:tt)*) => {
        return Err($crate::engine::Failure::new($sig, format!($($arg)*)))
    };
}

/// A named sub-check of a property: an oracle over a serialisable case type.
pub trait Check {
    type Case: Debug + Clone + Serialize + DeserializeOwned;
    fn name(&self) -> &'static str;
    /// Write the case to the crash journal before running it (for checks that evaluate
    /// generated programs and could abort the process).
    fn journal(&self) -> bool {
        false
    }
    fn run(&self, case: &Self::Case, ctx: &mut Ctx) -> Outcome;
}

#[derive(Clone, Debug, Serialize, Deserialize)]
pub struct RecordedFailure {
    pub check: String,
    pub sig: String,
    pub msg: String,
    pub input: serde_json::Value,
    pub shrunk: bool,
}

#[derive(Clone, Debug, Default, Serialize, Deserialize)]
pub struct ShardStats {
    pub evaluations: u64,
    pub nontrivial: u64,
    pub discarded: u64,
    pub planned: u64,
    pub labels: BTreeMap<String, u64>,
    pub per_check: BTreeMap<String, u64>,
    pub excluded_known: BTreeMap<String, u64>,
    pub known_examples: BTreeMap<String, RecordedFailure>,
    pub violations: Vec<RecordedFailure>,
    pub samples: Vec<serde_json::Value>,
    pub notes: Vec<String>,
    pub exhaustive_checks: Vec<String>,
    pub replayed: Vec<(String, String, String)>, // (source, check, outcome)
    pub hashes_truncated: bool,
    pub finished: bool,
}

pub const MAX_HASHES_PER_SHARD: usize = 400_000;

#[derive(Clone, Debug, Deserialize)]
pub struct KnownFinding {
    pub property: String,
    pub signature: String,
    pub what: String,
    #[serde(default)]
    pub check: Option<String>,
    #[serde(default)]
    pub input: Option<serde_json::Value>,
}

#[derive(Clone, Debug, Default, Deserialize)]
pub struct KnownFile {
    #[serde(default)]
    pub known: Vec<KnownFinding>,
    #[serde(default)]
    pub fixed: Vec<String>,
}

pub fn load_known(path: &str) -> KnownFile {
    match std::fs::read_to_string(path) {
        Ok(s) => serde_json::from_str(&s).expect("known_findings.json must be valid"),
        Err(_) => KnownFile::default(),
    }
}

pub enum Mode {
    Search,
    /// Run exactly one stored input through the named check.
    Replay {
        check: String,
        input: serde_json::Value,
        strict: bool,
    },
}

pub struct Ctx {
    pub prop: String,
    pub tier: Tier,
    pub seed: u64,
    pub shard: usize,
    pub nshards: usize,
    pub attempt: u32,
    /// budget multiplier in (0,1] used after a worker restart
    pub budget: f64,
    pub mode: Mode,
    pub stats: ShardStats,
    pub hashes: HashSet<u64>,
    known: HashSet<String>,
    session_seen: HashSet<String>,
    journal: Option<std::fs::File>,
    out_path: Option<String>,
    last_checkpoint: Instant,
    cur_check: &'static str,
    shrinking: bool,
    sample_next: u64,
    pub replay_outcome: Option<Outcome>,
    pub cli_path: String,
    pub survey: bool,
}

/// start time (ms since process start) of the case currently running; 0 = idle
pub static CASE_START_MS: AtomicU64 = AtomicU64::new(0);
pub static CASE_LIMIT_MS: AtomicU64 = AtomicU64::new(60_000);
static PROCESS_START: std::sync::OnceLock<Instant> = std::sync::OnceLock::new();

fn now_ms() -> u64 {
    PROCESS_START.get_or_init(Instant::now).elapsed().as_millis() as u64 + 1
}

pub fn start_watchdog(journal_path: Option<String>) {
    let _ = now_ms();
    std::thread::spawn(move || {
        loop {
            std::thread::sleep(std::time::Duration::from_millis(200));
            let st = CASE_START_MS.load(Ordering::Relaxed);
            if st != 0 && now_ms().saturating_sub(st) > CASE_LIMIT_MS.load(Ordering::Relaxed) {
                if let Some(p) = &journal_path {
                    let _ = std::fs::write(format!("{}.marker", p), "TIMEOUT");
                }
                eprintln!("bv worker: per-case watchdog fired");
                unsafe { libc::_exit(3) };
            }
        }
    });
}

pub fn fnv(bytes: &[u8]) -> u64 {
    let mut h: u64 = 0xcbf29ce484222325;
    for b in bytes {
        h ^= *b as u64;
        h = h.wrapping_mul(0x100000001b3);
    }
    h
}

pub fn hash_str(s: &str) -> u64 {
    fnv(s.as_bytes())
}

pub fn mix(a: u64, b: u64) -> u64 {
    let mut x = a ^ b.wrapping_mul(0x9E3779B97F4A7C15);
    x ^= x >> 30;
    x = x.wrapping_mul(0xBF58476D1CE4E5B9);
    x ^= x >> 27;
    x = x.wrapping_mul(0x94D049BB133111EB);
    x ^ (x >> 31)
}

impl Ctx {
    #[allow(clippy::too_many_arguments)]
    pub fn new(
        prop: &str,
        tier: Tier,
        seed: u64,
        shard: usize,
        nshards: usize,
        attempt: u32,
        budget: f64,
        mode: Mode,
        known: &KnownFile,
        journal_path: Option<&str>,
        out_path: Option<&str>,
    ) -> Ctx {
        let journal = journal_path.map(|p| {
            std::fs::OpenOptions::new()
                .create(true)
                .write(true)
                .truncate(true)
                .open(p)
                .expect("journal")
        });
        Ctx {
            prop: prop.to_string(),
            tier,
            seed,
            shard,
            nshards,
            attempt,
            budget,
            mode,
            stats: ShardStats::default(),
            hashes: HashSet::new(),
            known: known
                .known
                .iter()
                .filter(|k| k.property == prop)
                .map(|k| k.signature.clone())
                .collect(),
            session_seen: HashSet::new(),
            journal,
            out_path: out_path.map(|s| s.to_string()),
            last_checkpoint: Instant::now(),
            cur_check: "",
            shrinking: false,
            sample_next: 1,
            replay_outcome: None,
            cli_path: std::env::var("BV_CLI").unwrap_or_else(|_| "/verif/.build/repo/release/blots".into()),
            survey: std::env::var("BV_SURVEY").is_ok(),
        }
    }

    pub fn is_replay(&self) -> bool {
        matches!(self.mode, Mode::Replay { .. })
    }

    /// Scale a per-shard count: total `n` cases split over shards (and restart budget).
    pub fn share(&self, n: u64) -> u64 {
        let per = n.div_ceil(self.nshards as u64);
        ((per as f64 * self.budget).ceil() as u64).max(1)
    }

    // ---- accounting, called by oracles -------------------------------------------------

    pub fn label(&mut self, l: &str) {
        if self.shrinking {
            return;
        }
        *self.stats.labels.entry(l.to_string()).or_insert(0) += 1;
    }

    /// Mark the current case as non-trivial; `h` identifies it for distinct counting.
    pub fn nontrivial(&mut self, h: u64) {
        if self.shrinking {
            return;
        }
        self.stats.nontrivial += 1;
        if self.hashes.len() < MAX_HASHES_PER_SHARD {
            self.hashes.insert(mix(hash_str(self.cur_check), h));
        } else {
            self.stats.hashes_truncated = true;
        }
    }

    pub fn discard(&mut self) {
        if !self.shrinking {
            self.stats.discarded += 1;
        }
    }

    pub fn note(&mut self, s: impl Into<String>) {
        let s = s.into();
        if !self.stats.notes.contains(&s) && self.stats.notes.len() < 50 {
            self.stats.notes.push(s);
        }
    }

    /// count extra evaluations performed inside one case (e.g. several widths)
    pub fn extra_evals(&mut self, n: u64) {
        if !self.shrinking {
            self.stats.evaluations += n;
        }
    }

    fn want_sample(&mut self) -> bool {
        if self.shrinking || self.stats.samples.len() >= 12 {
            return false;
        }
        let n = *self.stats.per_check.get(self.cur_check).unwrap_or(&0);
        // samples at case numbers 1, 2, 3, 10, 100, 1000, ... of each check
        n <= 3 || (n >= 10 && is_pow10(n))
    }

    // ---- case execution -----------------------------------------------------------------

    fn begin_case<C: Check>(&mut self, check: &C, case: &C::Case) {
        if !self.shrinking {
            self.stats.evaluations += 1;
            *self.stats.per_check.entry(check.name().to_string()).or_insert(0) += 1;
        }
        if check.journal()
            && let Some(j) = &self.journal
        {
            let line = serde_json::json!({"check": check.name(), "input": case}).to_string();
            let _ = j.set_len(0);
            let _ = j.write_all_at(line.as_bytes(), 0);
        }
        CASE_START_MS.store(now_ms(), Ordering::Relaxed);
    }

    fn end_case(&mut self) {
        CASE_START_MS.store(0, Ordering::Relaxed);
        if self.last_checkpoint.elapsed().as_millis() > 1500 {
            self.checkpoint(false);
        }
    }

    /// Run the oracle on one case, turning a panic inside it into a Failure.
    fn exec<C: Check>(&mut self, check: &C, case: &C::Case) -> Outcome {
        self.begin_case(check, case);
        let r = catch_unwind(AssertUnwindSafe(|| check.run(case, self)));
        self.end_case();
        match r {
            Ok(o) => o,
            Err(p) => {
                let msg = crate::engine::panic_message(&p);
                Err(Failure::new(
                    format!("panic:{}", normalise_panic(&msg)),
                    format!("panic inside oracle/tested code: {}", msg),
                ))
            }
        }
    }

    fn record<C: Check>(&mut self, check: &C, case: &C::Case, f: &Failure, shrunk: bool) {
        let rec = RecordedFailure {
            check: check.name().to_string(),
            sig: f.sig.clone(),
            msg: f.msg.clone(),
            input: serde_json::to_value(case).unwrap_or(serde_json::Value::Null),
            shrunk,
        };
        self.stats.violations.push(rec);
        self.checkpoint(false);
    }

    fn note_known<C: Check>(&mut self, check: &C, case: &C::Case, f: &Failure) {
        *self.stats.excluded_known.entry(f.sig.clone()).or_insert(0) += 1;
        if !self.stats.known_examples.contains_key(&f.sig) {
            self.stats.known_examples.insert(
                f.sig.clone(),
                RecordedFailure {
                    check: check.name().to_string(),
                    sig: f.sig.clone(),
                    msg: f.msg.clone(),
                    input: serde_json::to_value(case).unwrap_or(serde_json::Value::Null),
                    shrunk: false,
                },
            );
        }
    }

    /// For oracles that can step over a listed finding inside a case and keep checking the rest
    /// of it: true (and counted under excluded_known, with `example` kept once) when `sig` is
    /// listed for this property.
    pub fn step_over_known(&mut self, check_name: &str, sig: &str, example: impl FnOnce() -> (String, serde_json::Value)) -> bool {
        if !self.known.contains(sig) {
            return false;
        }
        *self.stats.excluded_known.entry(sig.to_string()).or_insert(0) += 1;
        if !self.stats.known_examples.contains_key(sig) {
            let (msg, input) = example();
            self.stats.known_examples.insert(sig.to_string(), RecordedFailure { check: check_name.to_string(), sig: sig.to_string(), msg, input, shrunk: false });
        }
        true
    }

    fn is_known(&self, sig: &str) -> bool {
        self.known.contains(sig)
    }

    /// Replay-mode helper: if this check is the one being replayed, run it. Returns true when
    /// in replay mode (callers skip generation).
    fn try_replay<C: Check>(&mut self, check: &C) -> bool {
        let (name, input, _strict) = match &self.mode {
            Mode::Search => return false,
            Mode::Replay {
                check,
                input,
                strict,
            } => (check.clone(), input.clone(), *strict),
        };
        if name != check.name() {
            return true;
        }
        self.cur_check = check.name();
        match serde_json::from_value::<C::Case>(input) {
            Ok(case) => {
                let o = self.exec(check, &case);
                self.replay_outcome = Some(o);
            }
            Err(e) => {
                self.replay_outcome = Some(Err(Failure::new(
                    "replay:bad-input",
                    format!("cannot decode replay input for {}: {}", name, e),
                )));
            }
        }
        true
    }

    /// Enumerated tier: run every case of `cases` whose index falls in this shard.
    /// `exhaustive` = the iterator enumerates a finite space completely.
    pub fn run_enum<C: Check, I: Iterator<Item = C::Case>>(&mut self, check: &C, cases: I, exhaustive: bool) {
        if self.try_replay(check) {
            return;
        }
        self.cur_check = check.name();
        if self.attempt > 0 && self.budget < 1.0 {
            // restarted worker: enumerations are re-run from the start only on the first
            // restart; later ones skip them (they are deterministic and already crashed once)
        }
        let mut idx: u64 = 0;
        for case in cases {
            let mine = idx % self.nshards as u64 == self.shard as u64;
            idx += 1;
            if !mine {
                continue;
            }
            self.stats.planned += 1;
            match self.exec(check, &case) {
                Ok(()) => {
                    if self.want_sample() {
                        let v = serde_json::json!({"check": check.name(), "case": &case});
                        self.stats.samples.push(v);
                    }
                }
                Err(f) => {
                    if self.is_known(&f.sig) {
                        self.note_known(check, &case, &f);
                    } else if self.session_seen.insert(f.sig.clone()) {
                        self.record(check, &case, &f, false);
                    }
                }
            }
        }
        if exhaustive {
            let n = check.name().to_string();
            if !self.stats.exhaustive_checks.contains(&n) {
                self.stats.exhaustive_checks.push(n);
            }
        }
    }

    /// Random tier: `total_cases` (over all shards) cases from `strategy`, shrinking every
    /// failure whose signature is neither a known finding nor already reported in this run.
    pub fn run_random<C, S>(&mut self, check: &C, strategy: S, total_cases: u64)
    where
        C: Check,
        S: Strategy<Value = C::Case>,
    {
        if self.try_replay(check) {
            return;
        }
        self.cur_check = check.name();
        let total_cases = if self.tier == Tier::Thorough { (total_cases as f64 * thorough_scale(&self.prop)) as u64 } else { total_cases };
        let mut remaining = self.share(total_cases);
        self.stats.planned += remaining;
        let mut round: u64 = 0;
        while remaining > 0 && round < 40 {
            let seed = mix(
                mix(self.seed, hash_str(check.name())),
                mix(self.shard as u64 + 1000 * self.attempt as u64, round),
            );
            let config = Config {
                cases: remaining.min(u32::MAX as u64) as u32,
                failure_persistence: None,
                rng_algorithm: RngAlgorithm::ChaCha,
                rng_seed: RngSeed::Fixed(seed),
                max_shrink_iters: 4000,
                max_global_rejects: 1_000_000,
                ..Config::default()
            };
            let mut runner = TestRunner::new(config);
            let done_cell = std::cell::Cell::new(0u64);
            let target_cell: std::cell::RefCell<Option<String>> = std::cell::RefCell::new(None);
            let result = {
                let this_cell = std::cell::RefCell::new(&mut *self);
                runner.run(&strategy, |case| {
                    let mut guard = this_cell.borrow_mut();
                    let this: &mut Ctx = &mut guard;
                    let target_now = target_cell.borrow().clone();
                    if target_now.is_none() {
                        done_cell.set(done_cell.get() + 1);
                    }
                    match this.exec(check, &case) {
                        Ok(()) => {
                            if target_now.is_none() && this.want_sample() {
                                let v = serde_json::json!({"check": check.name(), "case": &case});
                                this.stats.samples.push(v);
                            }
                            Ok(())
                        }
                        Err(f) => {
                            if let Some(t) = target_now.as_ref() {
                                // shrinking: only the same root cause counts as "still failing"
                                if &f.sig == t {
                                    Err(TestCaseError::fail(f.sig))
                                } else {
                                    Ok(())
                                }
                            } else if this.is_known(&f.sig) {
                                this.note_known(check, &case, &f);
                                Ok(())
                            } else if this.session_seen.contains(&f.sig) {
                                Ok(())
                            } else if this.survey {
                                this.session_seen.insert(f.sig.clone());
                                this.record(check, &case, &f, false);
                                Ok(())
                            } else {
                                *target_cell.borrow_mut() = Some(f.sig.clone());
                                this.shrinking = true;
                                Err(TestCaseError::fail(f.sig))
                            }
                        }
                    }
                })
            };
            let done = done_cell.get();
            let target_sig = target_cell.borrow().clone();
            self.shrinking = false;
            CASE_START_MS.store(0, Ordering::Relaxed);
            match result {
                Ok(()) => break,
                Err(TestError::Fail(_, minimal)) => {
                    // re-run the oracle on the minimal case for its message
                    self.shrinking = true;
                    let o = self.exec(check, &minimal);
                    self.shrinking = false;
                    let f = match o {
                        Err(f) => f,
                        Ok(()) => Failure::new(
                            target_sig.clone().unwrap_or_default(),
                            "minimal case passed on re-run (flaky oracle?)",
                        ),
                    };
                    self.session_seen.insert(f.sig.clone());
                    if let Some(t) = &target_sig {
                        self.session_seen.insert(t.clone());
                    }
                    self.record(check, &minimal, &f, true);
                    remaining = remaining.saturating_sub(done);
                    round += 1;
                }
                Err(TestError::Abort(reason)) => {
                    self.note(format!("{}: proptest aborted: {}", check.name(), reason));
                    self.stats.discarded += 1_000_000;
                    break;
                }
            }
        }
    }

    /// Manual shrinking helper for stateful / custom loops is not needed: all random checks go
    /// through `run_random`.
    pub fn checkpoint(&mut self, finished: bool) {
        self.last_checkpoint = Instant::now();
        self.stats.finished = finished;
        if let Some(p) = &self.out_path {
            let tmp = format!("{}.tmp", p);
            if let Ok(mut f) = std::fs::File::create(&tmp) {
                let _ = f.write_all(serde_json::to_string(&self.stats).unwrap().as_bytes());
                let _ = std::fs::rename(&tmp, p);
            }
            if finished {
                let mut v: Vec<u64> = self.hashes.iter().copied().collect();
                v.sort_unstable();
                let bytes: Vec<u8> = v.iter().flat_map(|h| h.to_le_bytes()).collect();
                let _ = std::fs::write(format!("{}.hashes", p), bytes);
            }
        }
    }
}

fn is_pow10(mut n: u64) -> bool {
    while n >= 10 && n % 10 == 0 {
        n /= 10;
    }
    n == 1
}

pub fn panic_message(p: &Box<dyn std::any::Any + Send>) -> String {
    let base = if let Some(s) = p.downcast_ref::<&str>() {
        s.to_string()
    } else if let Some(s) = p.downcast_ref::<String>() {
        s.clone()
    } else {
        "non-string panic payload".to_string()
    };
    let loc = LAST_PANIC_LOCATION.with(|l| l.borrow().clone());
    match loc {
        Some(l) => format!("{} @ {}", base, l),
        None => base,
    }
}

thread_local! {
    pub static LAST_PANIC_LOCATION: std::cell::RefCell<Option<String>> = const { std::cell::RefCell::new(None) };
}

/// Install a panic hook that records the location and stays silent (panics are data here).
pub fn install_panic_hook() {
    std::panic::set_hook(Box::new(|info| {
        let loc = info.location().map(|l| format!("{}:{}", l.file(), l.line()));
        LAST_PANIC_LOCATION.with(|l| *l.borrow_mut() = loc);
    }));
}

/// mask digits and quoted data so one root cause gives one signature
pub fn normalise_panic(msg: &str) -> String {
    let mut out = String::new();
    let mut last_digit = false;
    for c in msg.chars() {
        if c.is_ascii_digit() {
            if !last_digit {
                out.push('N');
            }
            last_digit = true;
        } else {
            last_digit = false;
            out.push(c);
        }
    }
    // keep the file name of the location but not the line
    if let Some(pos) = out.find(" @ ") {
        let (m, loc) = out.split_at(pos);
        let loc = loc.trim_start_matches(" @ ");
        let file = loc.rsplit('/').next().unwrap_or(loc);
        let file = file.split(':').next().unwrap_or(file);
        let mut m = m.to_string();
        if m.len() > 90 {
            let mut cut = 90;
            while !m.is_char_boundary(cut) {
                cut -= 1;
            }
            m.truncate(cut);
        }
        return format!("{}@{}", m, file);
    }
    if out.len() > 90 {
        let mut cut = 90;
        while !out.is_char_boundary(cut) {
            cut -= 1;
        }
        out.truncate(cut);
    }
    out
}

/// Helper used by strategies: monotone index mapping (shrinks toward 0).
pub fn pick_idx(i: u16, len: usize) -> usize {
    ((i as usize) * len) >> 16
}

pub fn value_tree_current<S: Strategy>(s: &S, runner: &mut TestRunner) -> S::Value {
    s.new_tree(runner).unwrap().current()
}
