//! Typed, scoped program generator (tape decoder): expressions of a requested coarse type over
//! an environment of typed names, so that most generated programs evaluate.

use super::expr::{E, P, RE, Tape, bin, call, id, n};
use crate::model::prec::Op;
use serde::{Deserialize, Serialize};

#[derive(Clone, Copy, Debug, PartialEq, Eq, Serialize, Deserialize)]
pub enum Ty {
    N,
    B,
    S,
    L,
    R,
    F,
}

/// names in scope by coarse type
#[derive(Clone, Debug, Default)]
pub struct Scope {
    pub nums: Vec<String>,
    pub bools: Vec<String>,
    pub strs: Vec<String>,
    pub lists: Vec<String>,
    pub recs: Vec<String>,
    pub fns: Vec<String>,
    /// fresh-name counter for parameters / locals
    pub fresh: usize,
    /// allow `#name` / `inputs` references
    pub inputs: bool,
}

/// expressions that only C02 uses (they are not "closed after capture" in C05's sense: the
/// recursion goes through the function's own name): a recursive function made and named inside a
/// factory's do-block and used outside it, and a function whose parameter carries its own name
pub fn naming_expressions(t: &mut Tape) -> E {
    match t.pick(2) {
        0 => {
            let go = bin(Op::Add, call(id("go"), vec![bin(Op::Sub, id("q"), n(1.0))]), n(1.0));
            let body = E::If(b(bin(Op::Le, id("q"), n(0.0))), b(n(0.0)), b(go));
            let factory = E::Lambda(vec![], b(E::Do(vec![E::Assign("go".into(), b(E::Lambda(vec![P::Req("q".into())], b(body))))], b(id("go")))));
            call(call(factory, vec![]), vec![n([0.0, 2.0, 3.0][t.pick(3)])])
        }
        _ => {
            let f = E::Lambda(vec![P::Req("w9".into()), P::Req("k9".into())], b(bin(Op::Mul, id("w9"), id("k9"))));
            E::Do(vec![E::Assign("w9".into(), b(f))], b(call(id("w9"), vec![n([21.0, 0.5][t.pick(2)]), n(2.0)])))
        }
    }
}

pub const PRELUDE: &str = "n1 = 3\nn2 = -2.5\nn3 = 0\ns1 = \"ab\"\ns2 = \"héllo wörld\"\nb1 = true\nb2 = false\nl1 = [1, 2, 3]\nl2 = [4.5, -1, 0, 7]\nls = [\"b\", \"a\", \"c\"]\nr1 = {a: 1, b: 2, k: \"v\"}\nf1 = x => x * 2 + 1\nf2 = (a, b) => a - b\nf3 = (x, y?) => if y == null then x else x + y\n";

impl Scope {
    pub fn prelude() -> Scope {
        let v = |xs: &[&str]| xs.iter().map(|s| s.to_string()).collect();
        Scope {
            nums: v(&["n1", "n2", "n3"]),
            bools: v(&["b1", "b2"]),
            strs: v(&["s1", "s2"]),
            lists: v(&["l1", "l2"]),
            recs: v(&["r1"]),
            fns: v(&["f1", "f3"]),
            fresh: 0,
            inputs: false,
        }
    }
    pub fn add(&mut self, ty: Ty, name: &str) {
        let v = match ty {
            Ty::N => &mut self.nums,
            Ty::B => &mut self.bools,
            Ty::S => &mut self.strs,
            Ty::L => &mut self.lists,
            Ty::R => &mut self.recs,
            Ty::F => &mut self.fns,
        };
        v.push(name.to_string());
    }
    fn fresh_name(&mut self, stem: &str) -> String {
        self.fresh += 1;
        format!("{}{}", stem, self.fresh)
    }
}

fn b(e: E) -> Box<E> {
    Box::new(e)
}

/// a name for a new parameter / do-block local: usually fresh, sometimes an outer numeric name
/// (the new binding then shadows the outer or captured one inside its scope)
fn local_name(t: &mut Tape, sc: &mut Scope, stem: &str) -> String {
    if !sc.nums.is_empty() && t.chance(1, 4) {
        sc.nums[t.pick(sc.nums.len())].clone()
    } else {
        let n = sc.fresh_name(stem);
        n
    }
}

fn add_num(sc: &mut Scope, name: &str) {
    if !sc.nums.iter().any(|n| n == name) {
        sc.nums.push(name.to_string());
    }
}

fn var(t: &mut Tape, names: &[String], fallback: E) -> E {
    if names.is_empty() { fallback } else { E::Id(names[t.pick(names.len())].clone()) }
}

const STRS: &[&str] = &["", "a", "hello", "it's", "say \"hi\"", "a\\b", "x y", "é😀", "line1\nline2", "{} and {}", "1.5", ","];

pub fn gen_e(t: &mut Tape, sc: &Scope, ty: Ty, depth: usize) -> E {
    if depth == 0 || t.exhausted() {
        return leaf(t, sc, ty);
    }
    let d = depth - 1;
    match ty {
        Ty::N => match t.pick(25) {
            0 | 1 => leaf(t, sc, ty),
            2 | 3 | 4 => {
                let op = [Op::Add, Op::Sub, Op::Mul, Op::Div, Op::Mod, Op::Pow, Op::Add, Op::Mul][t.pick(8)];
                bin(op, gen_e(t, sc, Ty::N, d), gen_e(t, sc, Ty::N, d))
            }
            5 => E::Neg(b(gen_e(t, sc, Ty::N, d))),
            6 => E::If(b(gen_e(t, sc, Ty::B, d)), b(gen_e(t, sc, Ty::N, d)), b(gen_e(t, sc, Ty::N, d))),
            7 | 8 => call(gen_e(t, sc, Ty::F, d), vec![gen_e(t, sc, Ty::N, d)]),
            9 => E::Index(b(gen_e(t, sc, Ty::L, d)), b(n([0.0, 1.0, 2.0][t.pick(3)]))),
            10 => E::Field(b(gen_e(t, sc, Ty::R, d)), ["a", "b"][t.pick(2)].into()),
            11 => {
                let f = ["abs", "floor", "ceil", "round", "sqrt", "trunc"][t.pick(6)];
                call(E::BuiltIn(f.into()), vec![gen_e(t, sc, Ty::N, d)])
            }
            12 => {
                let f = ["len", "sum", "max", "min", "avg"][t.pick(5)];
                call(E::BuiltIn(f.into()), vec![gen_e(t, sc, Ty::L, d)])
            }
            13 => {
                // do { t = N; return N(t) }
                let mut sc2 = sc.clone();
                let name = local_name(t, &mut sc2, "t");
                let init = gen_e(t, sc, Ty::N, d);
                add_num(&mut sc2, &name);
                E::Do(vec![E::Assign(name, b(init))], b(gen_e(t, &sc2, Ty::N, d)))
            }
            14 => {
                // immediately applied lambda
                let mut sc2 = sc.clone();
                let p = sc2.fresh_name("p");
                sc2.nums.push(p.clone());
                let body = gen_e(t, &sc2, Ty::N, d);
                call(E::Lambda(vec![P::Req(p)], b(body)), vec![gen_e(t, sc, Ty::N, d)])
            }
            15 => bin(Op::Coalesce, E::Index(b(gen_e(t, sc, Ty::L, d)), b(n(99.0))), gen_e(t, sc, Ty::N, d)),
            16 => bin(Op::Into, gen_e(t, sc, Ty::N, d), gen_e(t, sc, Ty::F, d)),
            17 => E::Fact(b(n([0.0, 1.0, 3.0, 5.0][t.pick(4)]))),
            18 => {
                // unit conversion with identifiers whose letter case matters
                let units: &[(&str, &str)] = &[("mw", "watts"), ("MW", "watts"), ("mW", "watts"), ("km", "m"), ("KM", "M"), ("Mb", "bits"), ("MB", "bytes"), ("mb", "bits"), ("c", "k"), ("celsius", "f"), ("kb", "bits"), ("kB", "bytes")];
                let (from, to) = units[t.pick(units.len())];
                call(E::BuiltIn("convert".into()), vec![gen_e(t, sc, Ty::N, d), E::Str(from.into()), E::Str(to.into())])
            }
            19 => call(E::BuiltIn("sqrt".into()), vec![E::Neg(b(n(1.0)))]),
            23 => call(E::BuiltIn("len".into()), vec![gen_e(t, sc, Ty::S, d)]),
            24 => {
                // unorderable values of one type in a sorted list, observed through the first element
                match t.pick(2) {
                    0 => call(E::Index(b(call(E::BuiltIn("sort".into()), vec![E::List(vec![gen_e(t, sc, Ty::F, d), gen_e(t, sc, Ty::F, d)])])), b(n(0.0))), vec![gen_e(t, sc, Ty::N, d)]),
                    _ => {
                        let rows = E::List(vec![E::List(vec![gen_e(t, sc, Ty::N, d), E::Str("b".into())]), E::List(vec![E::Str("a".into()), gen_e(t, sc, Ty::N, d)]), E::List(vec![gen_e(t, sc, Ty::N, 0), E::Bool(true)])]);
                        call(E::BuiltIn("len".into()), vec![call(E::BuiltIn("to_string".into()), vec![call(E::BuiltIn("sort".into()), vec![rows])])])
                    }
                }
            }
            21 => {
                // order-dependent observation on a sorted list of records (records have no order:
                // a stable sort leaves them as written)
                let sorted = call(E::BuiltIn("sort".into()), vec![E::List(vec![gen_e(t, sc, Ty::R, d), gen_e(t, sc, Ty::R, d), gen_e(t, sc, Ty::R, 0)])]);
                bin(Op::Coalesce, E::Field(b(E::Index(b(sorted), b(n([0.0, 1.0, 2.0][t.pick(3)])))), "a".into()), n(0.0))
            }
            22 => {
                // sort_by with function- or record-valued keys, observed through the first element
                let key = if t.pick(2) == 0 { E::Rec(vec![RE::Pair("k".into(), id("w"))]) } else { E::Lambda(vec![P::Req("z".into())], b(id("w"))) };
                let sorted = call(E::BuiltIn("sort_by".into()), vec![gen_e(t, sc, Ty::L, d), E::Lambda(vec![P::Req("w".into())], b(key))]);
                bin(Op::Coalesce, E::Index(b(sorted), b(n(0.0))), n(0.0))
            }
            _ => call(
                E::BuiltIn("reduce".into()),
                vec![gen_e(t, sc, Ty::L, d), E::Lambda(vec![P::Req("acc".into()), P::Req("it".into())], b(bin(Op::Add, id("acc"), id("it")))), n(0.0)],
            ),
        },
        Ty::B => match t.pick(12) {
            0 => leaf(t, sc, ty),
            1 | 2 | 3 => {
                let op = [Op::Lt, Op::Le, Op::Gt, Op::Ge, Op::Eq, Op::Ne, Op::DEq, Op::DLt][t.pick(8)];
                bin(op, gen_e(t, sc, Ty::N, d), gen_e(t, sc, Ty::N, d))
            }
            4 => bin([Op::AndWord, Op::AndSym][t.pick(2)], gen_e(t, sc, Ty::B, d), gen_e(t, sc, Ty::B, d)),
            5 => bin([Op::OrWord, Op::OrSym][t.pick(2)], gen_e(t, sc, Ty::B, d), gen_e(t, sc, Ty::B, d)),
            6 => {
                let w = t.pick(2) == 0;
                E::Not(b(gen_e(t, sc, Ty::B, d)), w)
            }
            7 => bin([Op::DEq, Op::DNe][t.pick(2)], gen_e(t, sc, Ty::L, d), gen_e(t, sc, Ty::L, d)),
            8 => {
                // the same sub-expression on both sides
                let ty2 = [Ty::L, Ty::N, Ty::R, Ty::S, Ty::F, Ty::F][t.pick(6)];
                let x = gen_e(t, sc, ty2, d);
                bin([Op::DEq, Op::DNe, Op::DEq, Op::Eq][t.pick(4)], x.clone(), x)
            }
            9 => {
                let x = gen_e(t, sc, Ty::L, d);
                call(E::BuiltIn("includes".into()), vec![E::List(vec![x.clone()]), x])
            }
            10 => {
                // unchecked comparisons of values without an order
                let ty2 = [Ty::R, Ty::F, Ty::R, Ty::L][t.pick(4)];
                call(E::BuiltIn(["ugt", "ult", "ugte", "ulte"][t.pick(4)].into()), vec![gen_e(t, sc, ty2, d), gen_e(t, sc, ty2, d)])
            }
            _ => call(E::BuiltIn(["every", "some"][t.pick(2)].into()), vec![gen_e(t, sc, Ty::L, d), E::Lambda(vec![P::Req("q".into())], b(bin(Op::Gt, id("q"), gen_e(t, sc, Ty::N, 0))))]),
        },
        Ty::S => match t.pick(10) {
            0 | 1 => leaf(t, sc, ty),
            9 => {
                // records built by count_by / group_by, observed in key order
                let list = if t.chance(1, 2) { gen_e(t, sc, Ty::L, d) } else { E::List(vec![n(3.0), n(1.0), n(2.0), n(1.0), gen_e(t, sc, Ty::N, 0)]) };
                let keyf = E::Lambda(vec![P::Req("q".into())], b(call(E::BuiltIn("to_string".into()), vec![id("q")])));
                let rec = call(E::BuiltIn(["count_by", "group_by"][t.pick(2)].into()), vec![list, keyf]);
                match t.pick(4) {
                    0 => call(E::BuiltIn("to_string".into()), vec![rec]),
                    1 => call(E::BuiltIn("join".into()), vec![call(E::BuiltIn("keys".into()), vec![rec]), E::Str(",".into())]),
                    2 => call(E::BuiltIn("to_string".into()), vec![call(E::BuiltIn("entries".into()), vec![rec])]),
                    _ => call(E::BuiltIn("to_string".into()), vec![call(E::BuiltIn("values".into()), vec![rec])]),
                }
            }
            2 => bin(Op::Add, gen_e(t, sc, Ty::S, d), gen_e(t, sc, Ty::S, d)),
            3 => call(E::BuiltIn("to_string".into()), vec![gen_e(t, sc, Ty::N, d)]),
            4 => E::If(b(gen_e(t, sc, Ty::B, d)), b(gen_e(t, sc, Ty::S, d)), b(gen_e(t, sc, Ty::S, d))),
            5 => call(E::BuiltIn(["uppercase", "lowercase", "trim"][t.pick(3)].into()), vec![gen_e(t, sc, Ty::S, d)]),
            6 => call(E::BuiltIn("join".into()), vec![id("ls"), gen_e(t, sc, Ty::S, 0)]),
            8 => {
                // strings (also multi-line ones) bound and used inside a do-block
                let mut sc2 = sc.clone();
                let name = sc2.fresh_name("w");
                let init = gen_e(t, sc, Ty::S, d);
                sc2.strs.push(name.clone());
                E::Do(vec![E::Assign(name, b(init))], b(bin(Op::Add, gen_e(t, &sc2, Ty::S, d), gen_e(t, &sc2, Ty::S, 0))))
            }
            _ => {
                let ty2 = [Ty::N, Ty::L, Ty::R, Ty::F][t.pick(4)];
                call(E::BuiltIn("typeof".into()), vec![gen_e(t, sc, ty2, d)])
            }
        },
        Ty::L => match t.pick(14) {
            0 | 1 => leaf(t, sc, ty),
            2 => {
                let k = t.pick(4);
                E::List((0..k).map(|_| gen_e(t, sc, Ty::N, d)).collect())
            }
            3 => bin(Op::Via, gen_e(t, sc, Ty::L, d), gen_e(t, sc, Ty::F, d)),
            4 => call(E::BuiltIn("map".into()), vec![gen_e(t, sc, Ty::L, d), gen_e(t, sc, Ty::F, d)]),
            5 => {
                let mut sc2 = sc.clone();
                let p = sc2.fresh_name("e");
                sc2.nums.push(p.clone());
                let pred = E::Lambda(vec![P::Req(p)], b(gen_e(t, &sc2, Ty::B, d)));
                if t.pick(2) == 0 { bin(Op::Where, gen_e(t, sc, Ty::L, d), pred) } else { call(E::BuiltIn("filter".into()), vec![gen_e(t, sc, Ty::L, d), pred]) }
            }
            6 => {
                let op = [Op::Add, Op::Sub, Op::Mul, Op::Div][t.pick(4)];
                if t.pick(2) == 0 { bin(op, gen_e(t, sc, Ty::L, d), gen_e(t, sc, Ty::N, d)) } else { bin(op, gen_e(t, sc, Ty::N, d), gen_e(t, sc, Ty::L, d)) }
            }
            7 => call(E::BuiltIn("concat".into()), vec![gen_e(t, sc, Ty::L, d), gen_e(t, sc, Ty::L, d)]),
            8 => call(E::BuiltIn(["sort", "reverse", "unique"][t.pick(3)].into()), vec![gen_e(t, sc, Ty::L, d)]),
            9 => call(E::BuiltIn("range".into()), vec![n([0.0, 1.0, 3.0, 4.0][t.pick(4)])]),
            10 => E::List(vec![E::Spread(b(gen_e(t, sc, Ty::L, d))), gen_e(t, sc, Ty::N, d)]),
            12 => {
                let x = gen_e(t, sc, Ty::N, d);
                call(E::BuiltIn("unique".into()), vec![E::List(vec![x.clone(), x, n(1.0)])])
            }
            11 => {
                // (x, i) => N over element and index
                let mut sc2 = sc.clone();
                let (x, i) = (sc2.fresh_name("x"), sc2.fresh_name("i"));
                sc2.nums.push(x.clone());
                sc2.nums.push(i.clone());
                let f = E::Lambda(vec![P::Req(x), P::Req(i)], b(gen_e(t, &sc2, Ty::N, d)));
                bin(Op::Via, gen_e(t, sc, Ty::L, d), f)
            }
            _ => E::If(b(gen_e(t, sc, Ty::B, d)), b(gen_e(t, sc, Ty::L, d)), b(gen_e(t, sc, Ty::L, d))),
        },
        Ty::R => match t.pick(6) {
            0 => leaf(t, sc, ty),
            1 | 2 => {
                let keys = ["a", "b", "two words", "if", "it's", "k"];
                let k = 1 + t.pick(3);
                let mut used = vec![];
                let mut entries = vec![];
                for _ in 0..k {
                    let key = keys[t.pick(keys.len())];
                    if used.contains(&key) {
                        continue;
                    }
                    used.push(key);
                    let ty2 = [Ty::N, Ty::N, Ty::S, Ty::L][t.pick(4)];
                    entries.push(RE::Pair(key.into(), gen_e(t, sc, if key == "a" || key == "b" { Ty::N } else { ty2 }, d)));
                }
                E::Rec(entries)
            }
            3 => E::Rec(vec![RE::Spread(gen_e(t, sc, Ty::R, d)), RE::Pair("c".into(), gen_e(t, sc, Ty::N, d))]),
            4 => E::Rec(vec![RE::Dyn(gen_e(t, sc, Ty::S, d), gen_e(t, sc, Ty::N, d)), RE::Pair("a".into(), gen_e(t, sc, Ty::N, d))]),
            _ => {
                let name = if sc.nums.is_empty() { "n1".to_string() } else { sc.nums[t.pick(sc.nums.len())].clone() };
                E::Rec(vec![RE::Short(name), RE::Pair("a".into(), gen_e(t, sc, Ty::N, d))])
            }
        },
        Ty::F => match t.pick(8) {
            0 => leaf(t, sc, ty),
            1 | 2 | 3 => {
                let mut sc2 = sc.clone();
                let p = local_name(t, &mut sc2, "x");
                add_num(&mut sc2, &p);
                E::Lambda(vec![P::Req(p)], b(gen_e(t, &sc2, Ty::N, d)))
            }
            4 => {
                let mut sc2 = sc.clone();
                let p = sc2.fresh_name("x");
                sc2.nums.push(p.clone());
                // the optional (or rest) parameter may be named like an outer / captured name
                let q = local_name(t, &mut sc2, "y");
                sc2.nums.retain(|n| n != &q);
                if t.chance(1, 4) {
                    let body = bin(Op::Add, gen_e(t, &sc2, Ty::N, d), call(E::BuiltIn("len".into()), vec![E::Id(q.clone())]));
                    E::Lambda(vec![P::Req(p), P::Rest(q)], b(body))
                } else {
                    let body = bin(Op::Add, gen_e(t, &sc2, Ty::N, d), bin(Op::Coalesce, E::Id(q.clone()), n(0.0)));
                    E::Lambda(vec![P::Req(p), P::Opt(q)], b(body))
                }
            }
            7 => {
                // a closure over a heap value (string or list): (v => x => x + len(v))(S | L)
                let mut sc2 = sc.clone();
                let (v, x) = (sc2.fresh_name("v"), sc2.fresh_name("x"));
                sc2.nums.push(x.clone());
                let inner = E::Lambda(vec![P::Req(x)], b(bin(Op::Add, gen_e(t, &sc2, Ty::N, d), call(E::BuiltIn("len".into()), vec![E::Id(v.clone())]))));
                let arg = if t.pick(2) == 0 { gen_e(t, sc, Ty::S, d) } else { gen_e(t, sc, Ty::L, d) };
                call(E::Lambda(vec![P::Req(v)], b(inner)), vec![arg])
            }
            5 => {
                // curried: (k => x => N)(N)
                let mut sc2 = sc.clone();
                let (k, x) = (sc2.fresh_name("k"), sc2.fresh_name("x"));
                sc2.nums.push(k.clone());
                sc2.nums.push(x.clone());
                let inner = E::Lambda(vec![P::Req(x)], b(gen_e(t, &sc2, Ty::N, d)));
                call(E::Lambda(vec![P::Req(k)], b(inner)), vec![gen_e(t, sc, Ty::N, d)])
            }
            _ => {
                // lambda with a do-block body
                let mut sc2 = sc.clone();
                let p = sc2.fresh_name("x");
                sc2.nums.push(p.clone());
                let loc = local_name(t, &mut sc2, "t");
                let init = gen_e(t, &sc2, Ty::N, d);
                add_num(&mut sc2, &loc);
                // sometimes a second statement that reads the (possibly shadowing) local
                let mut stmts = vec![E::Assign(loc.clone(), b(init))];
                if t.chance(1, 3) {
                    let loc2 = local_name(t, &mut sc2, "t");
                    let init2 = gen_e(t, &sc2, Ty::N, d);
                    add_num(&mut sc2, &loc2);
                    if loc2 != loc {
                        stmts.push(E::Assign(loc2, b(init2)));
                    }
                }
                E::Lambda(vec![P::Req(p)], b(E::Do(stmts, b(gen_e(t, &sc2, Ty::N, d)))))
            }
        },
    }
}

pub fn leaf(t: &mut Tape, sc: &Scope, ty: Ty) -> E {
    match ty {
        Ty::N => match t.pick(5) {
            0 | 1 => var(t, &sc.nums, n(1.0)),
            2 if sc.inputs => E::InputRef("n".into()),
            _ => n([1.0, 2.0, 0.0, 0.5, 10.0, 3.0, 7.25, 100.0][t.pick(8)]),
        },
        Ty::B => match t.pick(3) {
            0 => var(t, &sc.bools, E::Bool(true)),
            1 => E::Bool(true),
            _ => E::Bool(false),
        },
        Ty::S => match t.pick(3) {
            0 => var(t, &sc.strs, E::Str("a".into())),
            _ => E::Str(STRS[t.pick(STRS.len())].into()),
        },
        Ty::L => match t.pick(3) {
            0 | 1 => var(t, &sc.lists, E::List(vec![n(1.0), n(2.0)])),
            _ => E::List(vec![n(1.0), n(2.0), n(3.0)]),
        },
        Ty::R => var(t, &sc.recs, E::Rec(vec![RE::Pair("a".into(), n(1.0)), RE::Pair("b".into(), n(2.0))])),
        Ty::F => match t.pick(4) {
            0 | 1 => var(t, &sc.fns, E::BuiltIn("abs".into())),
            2 => E::BuiltIn(["abs", "floor", "sqrt", "round"][t.pick(4)].into()),
            _ => E::Lambda(vec![P::Req("u".into())], b(bin(Op::Add, id("u"), n(1.0)))),
        },
    }
}

/// statements after the prelude: `v<i> = <expr>` of cycling types; returns (statements, final scope)
pub fn program(t: &mut Tape, max_stmts: usize, depth: usize, inputs: bool) -> (Vec<E>, Scope) {
    let mut sc = Scope::prelude();
    sc.inputs = inputs;
    let k = 1 + t.pick(max_stmts);
    let mut out = Vec::new();
    for i in 0..k {
        let ty = [Ty::N, Ty::L, Ty::F, Ty::S, Ty::B, Ty::R][t.pick(6)];
        let name = format!("v{}", i);
        let e = gen_e(t, &sc, ty, depth);
        out.push(E::Assign(name.clone(), b(e)));
        sc.add(ty, &name);
    }
    (out, sc)
}
