//! Harness-side expression trees (`E`), conversion to blots-core's AST, reference printers
//! (fully parenthesised / minimally parenthesised under the reference table / random
//! admissible layout with comments) and tape-driven generators.

use crate::engine::pick_idx;
use crate::model::F;
use crate::model::mv::{RESERVED, is_ident};
use crate::model::prec::{ALL_OPS, LEVEL_ATOM, LEVEL_POSTFIX_ACCESS, LEVEL_POSTFIX_FACT, LEVEL_PREFIX, Op};
use blots_core::ast::{Commented, Expr, PostfixOp, RecordEntry, RecordKey, Spanned, SpannedExpr, UnaryOp};
use blots_core::functions::BuiltInFunction;
use blots_core::values::LambdaArg;
use serde::{Deserialize, Serialize};

#[derive(Clone, Debug, PartialEq, Serialize, Deserialize)]
pub enum P {
    Req(String),
    Opt(String),
    Rest(String),
}

impl P {
    pub fn name(&self) -> &str {
        match self {
            P::Req(n) | P::Opt(n) | P::Rest(n) => n,
        }
    }
    fn text(&self) -> String {
        match self {
            P::Req(n) => n.clone(),
            P::Opt(n) => format!("{}?", n),
            P::Rest(n) => format!("...{}", n),
        }
    }
}

#[derive(Clone, Debug, PartialEq, Serialize, Deserialize)]
pub enum RE {
    Pair(String, E),
    Dyn(E, E),
    Short(String),
    Spread(E),
}

#[derive(Clone, Debug, PartialEq, Serialize, Deserialize)]
pub enum E {
    /// non-negative finite number literal
    Num(F),
    /// string literal; never contains both quote characters
    Str(String),
    Bool(bool),
    Null,
    Id(String),
    InputRef(String),
    BuiltIn(String),
    List(Vec<E>),
    Rec(Vec<RE>),
    Lambda(Vec<P>, Box<E>),
    If(Box<E>, Box<E>, Box<E>),
    Do(Vec<E>, Box<E>),
    Assign(String, Box<E>),
    Call(Box<E>, Vec<E>),
    Index(Box<E>, Box<E>),
    Field(Box<E>, String),
    Bin(Op, Box<E>, Box<E>),
    Neg(Box<E>),
    /// logical not; bool = word spelling (`not x`) instead of `!x`
    Not(Box<E>, bool),
    Fact(Box<E>),
    /// only as list item / call argument
    Spread(Box<E>),
    /// top-level only: `output <assignment | identifier>`
    Output(Box<E>),
}

pub fn id(s: &str) -> E {
    E::Id(s.to_string())
}
pub fn n(x: f64) -> E {
    E::Num(F(x))
}
pub fn bin(op: Op, a: E, b: E) -> E {
    E::Bin(op, Box::new(a), Box::new(b))
}
pub fn call(f: E, args: Vec<E>) -> E {
    E::Call(Box::new(f), args)
}

fn sp(e: Expr) -> SpannedExpr {
    Spanned::dummy(e)
}

impl E {
    pub fn depth(&self) -> usize {
        1 + self.children().iter().map(|c| c.depth()).max().unwrap_or(0)
    }

    pub fn size(&self) -> usize {
        1 + self.children().iter().map(|c| c.size()).sum::<usize>()
    }

    pub fn children(&self) -> Vec<&E> {
        match self {
            E::List(v) => v.iter().collect(),
            E::Rec(v) => v
                .iter()
                .flat_map(|r| match r {
                    RE::Pair(_, e) | RE::Spread(e) => vec![e],
                    RE::Dyn(k, e) => vec![k, e],
                    RE::Short(_) => vec![],
                })
                .collect(),
            E::Lambda(_, b) => vec![b],
            E::If(a, b, c) => vec![a, b, c],
            E::Do(s, r) => s.iter().chain(std::iter::once(r.as_ref())).collect(),
            E::Assign(_, v) => vec![v],
            E::Call(f, a) => std::iter::once(f.as_ref()).chain(a.iter()).collect(),
            E::Index(a, b) => vec![a, b],
            E::Field(a, _) => vec![a],
            E::Bin(_, a, b) => vec![a, b],
            E::Neg(a) | E::Not(a, _) | E::Fact(a) | E::Spread(a) | E::Output(a) => vec![a],
            _ => vec![],
        }
    }

    pub fn kind(&self) -> &'static str {
        match self {
            E::Num(_) => "number",
            E::Str(_) => "string",
            E::Bool(_) => "bool",
            E::Null => "null",
            E::Id(_) => "identifier",
            E::InputRef(_) => "input-ref",
            E::BuiltIn(_) => "built-in",
            E::List(_) => "list",
            E::Rec(_) => "record",
            E::Lambda(..) => "lambda",
            E::If(..) => "conditional",
            E::Do(..) => "do-block",
            E::Assign(..) => "assignment",
            E::Call(..) => "call",
            E::Index(..) => "index",
            E::Field(..) => "field",
            E::Bin(..) => "binary",
            E::Neg(_) => "negate",
            E::Not(..) => "not",
            E::Fact(_) => "factorial",
            E::Spread(_) => "spread",
            E::Output(_) => "output",
        }
    }

    /// the blots-core AST this tree denotes (dummy spans; no comments)
    pub fn to_core(&self) -> SpannedExpr {
        let b = |e: &E| Box::new(e.to_core());
        match self {
            E::Num(F(x)) => sp(Expr::Number(*x)),
            E::Str(s) => sp(Expr::String(s.clone())),
            E::Bool(v) => sp(Expr::Bool(*v)),
            E::Null => sp(Expr::Null),
            E::Id(name) => match BuiltInFunction::from_ident(name) {
                Some(bi) => sp(Expr::BuiltIn(bi)),
                None => sp(Expr::Identifier(name.clone())),
            },
            E::InputRef(f) => sp(Expr::InputReference(f.clone())),
            E::BuiltIn(name) => sp(Expr::BuiltIn(BuiltInFunction::from_ident(name).expect("built-in name"))),
            E::List(items) => sp(Expr::List(items.iter().map(|i| Commented::new(i.to_core())).collect())),
            E::Rec(entries) => sp(Expr::Record(
                entries
                    .iter()
                    .map(|r| {
                        Commented::new(match r {
                            RE::Pair(k, v) => RecordEntry {
                                key: RecordKey::Static(k.clone()),
                                value: v.to_core(),
                            },
                            RE::Dyn(k, v) => RecordEntry {
                                key: RecordKey::Dynamic(b(k)),
                                value: v.to_core(),
                            },
                            RE::Short(k) => RecordEntry {
                                key: RecordKey::Shorthand(k.clone()),
                                value: Spanned::dummy(Expr::Null),
                            },
                            RE::Spread(e) => RecordEntry {
                                key: RecordKey::Spread(Box::new(sp(Expr::Spread(b(e))))),
                                value: Spanned::dummy(Expr::Null),
                            },
                        })
                    })
                    .collect(),
            )),
            E::Lambda(ps, body) => sp(Expr::Lambda {
                args: ps
                    .iter()
                    .map(|p| match p {
                        P::Req(n) => LambdaArg::Required(n.clone()),
                        P::Opt(n) => LambdaArg::Optional(n.clone()),
                        P::Rest(n) => LambdaArg::Rest(n.clone()),
                    })
                    .collect(),
                body: b(body),
            }),
            E::If(c, t, e) => sp(Expr::Conditional {
                condition: b(c),
                then_expr: b(t),
                else_expr: b(e),
            }),
            E::Do(stmts, ret) => sp(Expr::DoBlock {
                statements: stmts.iter().map(|s| Commented::new(s.to_core())).collect(),
                return_expr: Box::new(Commented::new(ret.to_core())),
            }),
            E::Assign(name, v) => sp(Expr::Assignment {
                ident: name.clone(),
                value: b(v),
            }),
            E::Call(f, args) => sp(Expr::Call {
                func: b(f),
                args: args.iter().map(|a| a.to_core()).collect(),
            }),
            E::Index(a, i) => sp(Expr::Access {
                expr: b(a),
                index: b(i),
            }),
            E::Field(a, f) => sp(Expr::DotAccess {
                expr: b(a),
                field: f.clone(),
            }),
            E::Bin(op, l, r) => sp(Expr::BinaryOp {
                op: op.to_core(),
                left: b(l),
                right: b(r),
            }),
            E::Neg(a) => sp(Expr::UnaryOp {
                op: UnaryOp::Negate,
                expr: b(a),
            }),
            E::Not(a, _) => sp(Expr::UnaryOp {
                op: UnaryOp::Not,
                expr: b(a),
            }),
            E::Fact(a) => sp(Expr::PostfixOp {
                op: PostfixOp::Factorial,
                expr: b(a),
            }),
            E::Spread(a) => sp(Expr::Spread(b(a))),
            E::Output(a) => sp(Expr::Output { expr: b(a) }),
        }
    }

    /// binding level of the node under the reference table
    fn level(&self) -> u8 {
        match self {
            E::Bin(op, ..) => op.level(),
            E::Neg(_) | E::Not(..) => LEVEL_PREFIX,
            E::Fact(_) => LEVEL_POSTFIX_FACT,
            E::Call(..) | E::Index(..) | E::Field(..) => LEVEL_POSTFIX_ACCESS,
            // these swallow everything to their right: never an unparenthesised operand
            E::Lambda(..) | E::If(..) | E::Assign(..) | E::Output(_) | E::Spread(_) => 0,
            _ => LEVEL_ATOM,
        }
    }
}

// -----------------------------------------------------------------------------------------
// printing

/// A tape of choices; exhausted tape = always the first (simplest) alternative.
pub struct Tape<'a> {
    pub data: &'a [u16],
    pub pos: usize,
}

impl<'a> Tape<'a> {
    pub fn new(data: &'a [u16]) -> Tape<'a> {
        Tape { data, pos: 0 }
    }
    pub fn empty() -> Tape<'static> {
        Tape { data: &[], pos: 0 }
    }
    pub fn raw(&mut self) -> u16 {
        let v = self.data.get(self.pos).copied().unwrap_or(0);
        self.pos += 1;
        v
    }
    /// index in 0..n, monotone in the tape value (0 -> 0)
    pub fn pick(&mut self, n: usize) -> usize {
        if n <= 1 {
            return 0;
        }
        pick_idx(self.raw(), n)
    }
    /// true with probability num/den; false on an exhausted tape
    pub fn chance(&mut self, num: u32, den: u32) -> bool {
        let v = self.raw() as u32;
        v >= 65536 - (65536 * num / den).min(65535) && self.pos <= self.data.len()
    }
    pub fn exhausted(&self) -> bool {
        self.pos >= self.data.len()
    }
}

#[derive(Clone, Copy, PartialEq, Eq, Debug)]
pub enum Mode {
    /// every compound child in parentheses
    Full,
    /// parentheses only where the reference precedence table requires them
    Minimal,
}

pub struct Printer<'a> {
    pub mode: Mode,
    /// layout choices (empty = canonical single-spaced layout)
    pub tape: Tape<'a>,
    /// admit comments at the positions C09 lists
    pub comments: bool,
    /// admit silently swallowed comments at continuation positions (C10 layout only)
    pub continuation_comments: bool,
    /// redundant parentheses and trailing commas
    pub redundancy: bool,
    /// comments inserted so far, in textual order (C09 positions only)
    pub inserted: Vec<String>,
    /// position kind of each inserted comment (parallel to `inserted`)
    pub inserted_kinds: Vec<&'static str>,
    /// admit comments before / after / at the end of top-level statements
    pub statement_comments: bool,
    /// rarely, also try comments at positions the pinned grammar rejects (after the return
    /// expression of a do-block): the caller discards the program when the parser under test
    /// refuses it, and checks the comment like any other when it accepts it
    pub speculative_comments: bool,
    pub swallowed: usize,
    pub layout_edits: usize,
    pub position_kinds: std::collections::BTreeSet<&'static str>,
    counter: usize,
    indent: usize,
}

pub fn print_full(e: &E) -> String {
    Printer::new(Mode::Full, Tape::empty()).expr(e, 0)
}

pub fn print_min(e: &E) -> String {
    Printer::new(Mode::Minimal, Tape::empty()).expr(e, 0)
}

impl<'a> Printer<'a> {
    pub fn new(mode: Mode, tape: Tape<'a>) -> Printer<'a> {
        Printer {
            mode,
            tape,
            comments: false,
            continuation_comments: false,
            redundancy: false,
            inserted: vec![],
            inserted_kinds: vec![],
            statement_comments: true,
            speculative_comments: false,
            swallowed: 0,
            layout_edits: 0,
            position_kinds: Default::default(),
            counter: 0,
            indent: 0,
        }
    }

    fn new_comment(&mut self, kind: &'static str) -> String {
        self.counter += 1;
        let bodies = ["c", "note", " spaced out ", "has \"quotes\" and 'more'", "// double", "x = 1", "ünï", "", "[1, 2]", "}"];
        let b = bodies[self.tape.pick(bodies.len())];
        let c = format!("//{}#{}", b, self.counter);
        self.inserted.push(c.clone());
        self.inserted_kinds.push(kind);
        self.position_kinds.insert(kind);
        c
    }

    fn nl(&self) -> String {
        format!("\n{}", " ".repeat(self.indent))
    }

    /// a gap where the grammar admits spaces and line breaks (`min_one`: at least one
    /// separator is required)
    fn gap(&mut self, min_one: bool, allow_newline: bool) -> String {
        let k = self.tape.pick(8);
        let s = match k {
            0 | 1 => {
                if min_one {
                    " ".to_string()
                } else if k == 0 {
                    " ".to_string()
                } else {
                    String::new()
                }
            }
            2 => "  ".to_string(),
            3 => " \t ".to_string(),
            4 | 5 if allow_newline => self.nl(),
            6 if allow_newline => format!("\r\n{}", " ".repeat(self.indent)),
            7 if allow_newline && self.continuation_comments => {
                self.swallowed += 1;
                self.counter += 1;
                format!(" // swallowed {}{}", self.counter, self.nl())
            }
            _ => " ".to_string(),
        };
        if k >= 2 {
            self.layout_edits += 1;
        }
        s
    }

    fn wrap(&mut self, s: String) -> String {
        let (a, b) = if self.tape.data.is_empty() { (String::new(), String::new()) } else { (self.gap(false, true), self.gap(false, true)) };
        format!("({}{}{})", a, s, b)
    }

    /// print `child` as an operand of a parent that binds at `parent_level`; `strict` = the
    /// child must bind strictly tighter (the non-associative side)
    fn operand(&mut self, child: &E, parent_level: u8, strict: bool) -> String {
        let s = self.expr(child, 0);
        let need = match self.mode {
            Mode::Full => child.level() < LEVEL_ATOM,
            Mode::Minimal => {
                let l = child.level();
                if strict { l <= parent_level } else { l < parent_level }
            }
        };
        // a leading '-' directly after a prefix '-' would still parse, but keep tokens apart
        if need {
            self.wrap(s)
        } else if self.redundancy && self.tape.chance(1, 12) {
            self.layout_edits += 1;
            self.wrap(s)
        } else {
            s
        }
    }

    /// free slot: list item, argument, right-hand side, condition, branch, body...
    fn slot(&mut self, child: &E) -> String {
        let s = self.expr(child, 0);
        let must = matches!(child, E::Output(_));
        let full = self.mode == Mode::Full && child.level() < LEVEL_ATOM && !matches!(child, E::Spread(_));
        if must || full {
            self.wrap(s)
        } else if self.redundancy && !matches!(child, E::Spread(_)) && self.tape.chance(1, 12) {
            self.layout_edits += 1;
            self.wrap(s)
        } else {
            s
        }
    }

    /// lambda bodies may not contain via / into / where at their top level
    fn lambda_body(&mut self, body: &E) -> String {
        let s = self.expr(body, 0);
        // the grammar admits via / into / where nowhere in the unbracketed operator chain of a
        // lambda body (lambda_infix_usage): parenthesise the body if one is visible there
        let natural_visible = has_top_level_word(&s, &["via", "into", "where"]);
        let full = self.mode == Mode::Full && body.level() < LEVEL_ATOM;
        if natural_visible || full { self.wrap(s) } else { s }
    }

    fn str_lit(s: &str) -> String {
        if !s.contains('"') { format!("\"{}\"", s) } else { format!("'{}'", s) }
    }

    fn key(k: &str) -> String {
        if is_ident(k) && !RESERVED.contains(&k) { k.to_string() } else { Self::str_lit(k) }
    }

    /// separators of a bracketed sequence with optional comments: returns the text between
    /// the opening bracket and the closing bracket
    fn sequence(&mut self, items: Vec<String>, allow_comments: bool, trailing_comma_needs_newline: bool) -> String {
        if items.is_empty() {
            // a comment between the brackets of an empty list / record
            if allow_comments && self.comments && !self.tape.data.is_empty() && self.tape.chance(1, 4) {
                self.indent += 2;
                let c = self.new_comment("inside-empty-collection");
                let mut out = self.nl();
                out.push_str(&c);
                self.indent -= 2;
                out.push_str(&self.nl());
                return out;
            }
            return String::new();
        }
        let fancy = !self.tape.data.is_empty();
        if !fancy {
            return items.join(", ");
        }
        self.indent += 2;
        let multiline = self.tape.chance(1, 2);
        let mut out = String::new();
        let n = items.len();
        for (i, it) in items.into_iter().enumerate() {
            // before the item: line break and standalone comment lines
            if multiline {
                out.push_str(&self.nl());
                if allow_comments && self.comments && self.tape.chance(1, 5) {
                    let k = 1 + self.tape.pick(2);
                    for _ in 0..k {
                        let c = self.new_comment("standalone-line-before-item");
                        out.push_str(&c);
                        out.push_str(&self.nl());
                    }
                }
                self.layout_edits += 1;
            } else if i > 0 {
                out.push(' ');
            }
            out.push_str(&it);
            let last = i + 1 == n;
            // end-of-line comment directly after the LAST item (the grammar admits an item's own
            // end-of-line comment only where no comma follows on a later line)
            let mut eol_before_comma = false;
            if last && multiline && allow_comments && self.comments && self.tape.chance(1, 3) {
                let c = self.new_comment("end-of-line-after-last-item");
                out.push(' ');
                out.push_str(&c);
                eol_before_comma = true;
            }
            if !last {
                out.push(',');
                if multiline && allow_comments && self.comments && !eol_before_comma && self.tape.chance(1, 6) {
                    let c = self.new_comment("after-comma-end-of-line");
                    out.push_str("  ");
                    out.push_str(&c);
                }
            } else if multiline && !eol_before_comma && self.redundancy && self.tape.chance(1, 2) {
                out.push(',');
                self.layout_edits += 1;
                if allow_comments && self.comments && !eol_before_comma && self.tape.chance(1, 6) {
                    let c = self.new_comment("after-last-comma");
                    out.push_str("  ");
                    out.push_str(&c);
                }
                let _ = trailing_comma_needs_newline;
            }
        }
        self.indent -= 2;
        if multiline {
            // comments before the closing bracket
            if allow_comments && self.comments && self.tape.chance(1, 8) {
                self.indent += 2;
                let c = self.new_comment("before-closing-bracket");
                out.push_str(&self.nl());
                out.push_str(&c);
                self.indent -= 2;
            }
            out.push_str(&self.nl());
        }
        out
    }

    pub fn expr(&mut self, e: &E, _ctx: u8) -> String {
        match e {
            E::Num(F(x)) => crate::model::mv::num_source(*x, false),
            E::Str(s) => Self::str_lit(s),
            E::Bool(b) => b.to_string(),
            E::Null => "null".into(),
            E::Id(n) | E::BuiltIn(n) => n.clone(),
            E::InputRef(f) => format!("#{}", f),
            E::List(items) => {
                let parts: Vec<String> = items.iter().map(|i| self.slot(i)).collect();
                format!("[{}]", self.sequence(parts, true, false))
            }
            E::Rec(entries) => {
                let parts: Vec<String> = entries
                    .iter()
                    .map(|r| match r {
                        RE::Pair(k, v) => format!("{}: {}", Self::key(k), self.slot(v)),
                        RE::Dyn(k, v) => {
                            let ks = self.slot(k);
                            format!("[{}]: {}", ks, self.slot(v))
                        }
                        RE::Short(k) => k.clone(),
                        RE::Spread(x) => {
                            let s = self.operand(x, LEVEL_PREFIX, false);
                            format!("...{}", s)
                        }
                    })
                    .collect();
                format!("{{{}}}", self.sequence(parts, true, false))
            }
            E::Lambda(ps, body) => {
                // `...r => body` without parentheses would read as a spread in item / argument position
                let args = if ps.len() == 1 && !matches!(ps[0], P::Rest(_)) && self.tape.pick(2) == 0 {
                    ps[0].text()
                } else {
                    format!("({})", ps.iter().map(|p| p.text()).collect::<Vec<_>>().join(", "))
                };
                let g = if self.tape.data.is_empty() { " ".to_string() } else { self.gap(false, true) };
                self.indent += 2;
                let b = self.lambda_body(body);
                self.indent -= 2;
                format!("{} =>{}{}", args, g, b)
            }
            E::If(c, t, el) => {
                let fancy = !self.tape.data.is_empty();
                let cs = self.slot(c);
                let g1 = if fancy { self.gap(true, true) } else { " ".into() };
                let g2 = if fancy { self.gap(true, true) } else { " ".into() };
                let ts = self.slot(t);
                let g3 = if fancy { self.gap(true, true) } else { " ".into() };
                let g4 = if fancy { self.gap(true, true) } else { " ".into() };
                let es = self.slot(el);
                format!("if {}{}then{}{}{}else{}{}", cs, g1, g2, ts, g3, g4, es)
            }
            E::Do(stmts, ret) => {
                self.indent += 2;
                let mut out = String::from("do {");
                for s in stmts {
                    if self.comments && self.tape.chance(1, 6) {
                        let c = self.new_comment("do-block-standalone-line");
                        out.push_str(&self.nl());
                        out.push_str(&c);
                    }
                    out.push_str(&self.nl());
                    out.push_str(&self.statement(s));
                    if self.comments && self.tape.chance(1, 6) {
                        let c = self.new_comment("do-block-end-of-line");
                        out.push_str("  ");
                        out.push_str(&c);
                    } else if !self.tape.data.is_empty() && self.tape.chance(1, 10) {
                        // ';' separator instead of a line break
                        out.push(';');
                        self.layout_edits += 1;
                    }
                }
                if self.comments && self.tape.chance(1, 6) {
                    let c = self.new_comment("do-block-before-return");
                    out.push_str(&self.nl());
                    out.push_str(&c);
                }
                out.push_str(&self.nl());
                out.push_str("return ");
                out.push_str(&self.slot(ret));
                if self.comments && self.speculative_comments && self.tape.chance(1, 50) {
                    if self.tape.chance(1, 2) {
                        let c = self.new_comment("speculative:do-block-after-return-end-of-line");
                        out.push_str("  ");
                        out.push_str(&c);
                    } else {
                        let c = self.new_comment("speculative:do-block-line-after-return");
                        out.push_str(&self.nl());
                        out.push_str(&c);
                    }
                }
                self.indent -= 2;
                out.push_str(&self.nl());
                out.push('}');
                out
            }
            E::Assign(name, v) => {
                let rhs = self.slot(v);
                let (a, b) = if self.tape.data.is_empty() { (" ".to_string(), " ".to_string()) } else { (self.gap(false, false), self.gap(false, false)) };
                format!("{}{}={}{}", name, a, b, rhs)
            }
            E::Output(inner) => format!("output {}", self.expr(inner, 0)),
            E::Call(f, args) => {
                let fs = self.operand(f, LEVEL_POSTFIX_ACCESS, false);
                let parts: Vec<String> = args.iter().map(|a| self.slot(a)).collect();
                // call arguments: line breaks after '(' and ',' but no comment positions
                let inner = if self.tape.data.is_empty() || parts.is_empty() {
                    parts.join(", ")
                } else {
                    self.indent += 2;
                    let ml = self.tape.chance(1, 3);
                    let mut s = String::new();
                    let n = parts.len();
                    for (i, p) in parts.into_iter().enumerate() {
                        if ml {
                            s.push_str(&self.nl());
                            self.layout_edits += 1;
                        } else if i > 0 {
                            s.push(' ');
                        }
                        s.push_str(&p);
                        if i + 1 < n {
                            s.push(',');
                        } else if ml && self.redundancy && self.tape.chance(1, 2) {
                            s.push(',');
                            self.layout_edits += 1;
                        }
                    }
                    self.indent -= 2;
                    if ml {
                        s.push_str(&self.nl());
                    }
                    s
                };
                format!("{}({})", fs, inner)
            }
            E::Index(a, i) => {
                let base = self.operand(a, LEVEL_POSTFIX_ACCESS, false);
                let idx = self.slot(i);
                format!("{}[{}]", base, idx)
            }
            E::Field(a, f) => format!("{}.{}", self.operand(a, LEVEL_POSTFIX_ACCESS, false), f),
            E::Bin(op, l, r) => {
                let lv = op.level();
                let ls = self.operand(l, lv, op.right_assoc());
                let rs = self.operand(r, lv, !op.right_assoc());
                let fancy = !self.tape.data.is_empty();
                if op.is_word() {
                    let before = if fancy { self.gap(true, true) } else { " ".into() };
                    let after = if fancy { self.gap(true, false) } else { " ".into() };
                    format!("{}{}{}{}{}", ls, before, op.text(), after, rs)
                } else {
                    // keep one space before operators starting with '!' or '.' (postfix '!' / field access)
                    let mut before = if fancy { self.gap(false, true) } else { " ".into() };
                    if before.is_empty() && (op.text().starts_with('!') || op.text().starts_with('.') || ls.ends_with(|c: char| c.is_ascii_digit())) {
                        before = " ".into();
                    }
                    let mut after = if fancy { self.gap(false, true) } else { " ".into() };
                    if after.is_empty() && (rs.starts_with('.') || rs.starts_with('-') || rs.starts_with('!') || rs.starts_with('=')) {
                        after = " ".into();
                    }
                    format!("{}{}{}{}{}", ls, before, op.text(), after, rs)
                }
            }
            E::Neg(a) => format!("-{}", self.operand(a, LEVEL_PREFIX, false)),
            E::Not(a, word) => {
                let s = self.operand(a, LEVEL_PREFIX, false);
                if *word { format!("not {}", s) } else { format!("!{}", s) }
            }
            E::Fact(a) => {
                let s = self.operand(a, LEVEL_POSTFIX_FACT, false);
                format!("{}!", s)
            }
            E::Spread(a) => format!("...{}", self.operand(a, LEVEL_PREFIX, false)),
        }
    }

    /// a statement (top level or inside a do-block): must not start with a token that the
    /// previous line could absorb as an infix continuation
    pub fn statement(&mut self, e: &E) -> String {
        let s = self.expr(e, 0);
        // `via`, `into` and `where` are ordinary names, but at the start of a line they read as
        // the infix operator continuing the previous statement
        let word_start = ["via", "into", "where"].iter().any(|w| s.starts_with(w) && !s[w.len()..].starts_with(|c: char| c.is_ascii_alphanumeric() || c == '_'));
        if s.starts_with('-') || s.starts_with('+') || word_start { format!("({})", s) } else { s }
    }

    /// whole program: statements with blank lines and comments at statement level
    pub fn program(&mut self, stmts: &[E]) -> String {
        let mut out = String::new();
        for (i, st) in stmts.iter().enumerate() {
            if i > 0 {
                out.push('\n');
                let blanks = if self.tape.data.is_empty() { 0 } else { self.tape.pick(6) };
                for _ in 0..blanks {
                    out.push('\n');
                }
            }
            if self.comments && self.statement_comments && self.tape.chance(1, 5) {
                let k = 1 + self.tape.pick(2);
                for _ in 0..k {
                    let c = self.new_comment("standalone-line-before-statement");
                    out.push_str(&c);
                    out.push('\n');
                }
            }
            out.push_str(&self.statement(st));
            if self.comments && self.statement_comments && self.tape.chance(1, 5) {
                let c = self.new_comment("end-of-line-after-statement");
                out.push_str("  ");
                out.push_str(&c);
            }
        }
        if self.comments && self.statement_comments && self.tape.chance(1, 6) {
            let c = self.new_comment("standalone-line-after-last-statement");
            out.push('\n');
            out.push_str(&c);
        }
        out
    }
}

/// does `text` contain one of `words` as a whole word outside brackets, strings and comments?
pub fn has_top_level_word(text: &str, words: &[&str]) -> bool {
    let cs: Vec<char> = text.chars().collect();
    let mut depth = 0i32;
    let mut i = 0;
    while i < cs.len() {
        let c = cs[i];
        match c {
            '"' | '\'' => {
                let q = c;
                i += 1;
                while i < cs.len() && cs[i] != q {
                    i += 1;
                }
            }
            '/' if i + 1 < cs.len() && cs[i + 1] == '/' => {
                while i < cs.len() && cs[i] != '\n' {
                    i += 1;
                }
            }
            '(' | '[' | '{' => depth += 1,
            ')' | ']' | '}' => depth -= 1,
            _ if depth == 0 && (c.is_ascii_alphabetic() || c == '_') => {
                let st = i;
                while i < cs.len() && (cs[i].is_ascii_alphanumeric() || cs[i] == '_') {
                    i += 1;
                }
                let w: String = cs[st..i].iter().collect();
                let prev_ok = st == 0 || !(cs[st - 1] == '#' || cs[st - 1] == '.');
                if prev_ok && words.contains(&w.as_str()) {
                    return true;
                }
                continue;
            }
            _ => {}
        }
        i += 1;
    }
    false
}

// -----------------------------------------------------------------------------------------
// generators (tape decoders)

pub const NAMES: &[&str] = &["a", "b", "c", "x", "y", "foo", "bar_1", "_t", "total", "n", "via", "into", "where"];
pub const FIELD_NAMES: &[&str] = &["a", "b", "k", "name", "x1"];
pub const KEY_POOL: &[&str] = &[
    "a", "b", "k", "name", "x1", "two words", "if", "1", "", "é", "a-b", "it's", "say \"hi\"", "café", "x²", "naïve_1", "_ü", "k٣", "1a", "a.b", "true", "sum", "Ａ", "a\\b", "output", "e\u{301}x",
    // identifiers padded with blanks: distinct keys that only differ from plain names by layout
    " a", "b ", "\tk", "name\n", " ",
];
pub const STR_POOL: &[&str] = &["", "a", "crlf\r\nline", "cr\rbare", "hello world", "it's", "say \"hi\"", "// not a comment", "a\\b", "line1\nline2", "é😀", "[1, 2]", "x => y", " ", "see [\nbelow", "{\n  k: 1\n}", "f(\r\n1)", "日本語 // é", "Totals: \n  next", "tab\t\nx", "a \n\n b "];
pub const BUILTINS_FOR_SYNTAX: &[&str] = &["sum", "map", "len", "max", "to_string", "range", "sort_by", "format"];

fn boxed(e: E) -> Box<E> {
    Box::new(e)
}

/// purely syntactic expression: any node kind, names from a small pool (not meant to evaluate)
pub fn syntactic(t: &mut Tape, depth: usize) -> E {
    if depth == 0 || t.exhausted() {
        return atom(t);
    }
    let d = depth - 1;
    match t.pick(22) {
        0 | 1 => atom(t),
        2..=6 => {
            let op = ALL_OPS[t.pick(ALL_OPS.len())];
            E::Bin(op, boxed(syntactic(t, d)), boxed(syntactic(t, d)))
        }
        7 => E::Neg(boxed(syntactic(t, d))),
        8 => {
            let w = t.pick(2) == 1;
            E::Not(boxed(syntactic(t, d)), w)
        }
        9 => E::Fact(boxed(syntactic(t, d))),
        10 | 11 => {
            let f = if t.pick(3) == 0 { syntactic(t, d) } else if t.pick(2) == 0 { E::Id(NAMES[t.pick(NAMES.len())].into()) } else { E::BuiltIn(BUILTINS_FOR_SYNTAX[t.pick(BUILTINS_FOR_SYNTAX.len())].into()) };
            let k = t.pick(4);
            let args = (0..k).map(|_| if t.chance(1, 10) { E::Spread(boxed(syntactic(t, d))) } else { syntactic(t, d) }).collect();
            E::Call(boxed(f), args)
        }
        12 => E::Index(boxed(syntactic(t, d)), boxed(syntactic(t, d))),
        13 => E::Field(boxed(syntactic(t, d)), FIELD_NAMES[t.pick(FIELD_NAMES.len())].into()),
        14 | 15 => {
            let k = t.pick(5);
            E::List((0..k).map(|_| if t.chance(1, 10) { E::Spread(boxed(syntactic(t, d))) } else { syntactic(t, d) }).collect())
        }
        16 => {
            let k = t.pick(4);
            E::Rec(
                (0..k)
                    .map(|_| match t.pick(8) {
                        0 => RE::Short(NAMES[t.pick(NAMES.len())].into()),
                        1 => RE::Spread(syntactic(t, d)),
                        2 => RE::Dyn(syntactic(t, d), syntactic(t, d)),
                        _ => RE::Pair(KEY_POOL[t.pick(KEY_POOL.len())].into(), syntactic(t, d)),
                    })
                    .collect(),
            )
        }
        17 | 18 => E::Lambda(params(t), boxed(syntactic(t, d))),
        19 => E::If(boxed(syntactic(t, d)), boxed(syntactic(t, d)), boxed(syntactic(t, d))),
        20 => {
            let k = t.pick(3);
            let stmts = (0..k)
                .map(|_| if t.pick(2) == 0 { E::Assign(NAMES[t.pick(NAMES.len())].into(), boxed(syntactic(t, d))) } else { syntactic(t, d) })
                .collect();
            E::Do(stmts, boxed(syntactic(t, d)))
        }
        _ => E::Assign(NAMES[t.pick(NAMES.len())].into(), boxed(syntactic(t, d))),
    }
}

pub fn params(t: &mut Tape) -> Vec<P> {
    let names = ["x", "y", "z", "w"];
    let shapes: &[&[u8]] = &[&[0], &[0, 0], &[], &[0, 1], &[1], &[0, 2], &[2], &[0, 1, 2], &[0, 0, 0]];
    let sh = shapes[t.pick(shapes.len())];
    sh.iter()
        .enumerate()
        .map(|(i, k)| match k {
            0 => P::Req(names[i].into()),
            1 => P::Opt(names[i].into()),
            _ => P::Rest(names[i].into()),
        })
        .collect()
}

pub fn atom(t: &mut Tape) -> E {
    match t.pick(12) {
        0 | 1 | 2 => E::Id(NAMES[t.pick(NAMES.len())].into()),
        3 | 4 => {
            let nums = [1.0, 0.0, 2.0, 42.0, 0.5, 1e21, 1.5e-7, 123456.789, 1e15, 9007199254740993.0, 1.7976931348623157e308, 1180591620717411303424.0, 5.3911613151624835e-44, 5e-324, 1.2345678901234567e-7, 1.2345678901234568e23, 2.2250738585072014e-308, 0.1 + 0.2];
            E::Num(F(nums[t.pick(nums.len())]))
        }
        5 => E::Str(STR_POOL[t.pick(STR_POOL.len())].into()),
        6 => E::Bool(t.pick(2) == 0),
        7 => E::Null,
        8 => E::InputRef(FIELD_NAMES[t.pick(FIELD_NAMES.len())].into()),
        9 => E::Id(["inf", "constants", "inputs"][t.pick(3)].into()),
        10 => E::List(vec![]),
        _ => E::Rec(vec![]),
    }
}

/// statements for a syntactic program
pub fn syntactic_program(t: &mut Tape, max_stmts: usize, depth: usize) -> Vec<E> {
    let k = 1 + t.pick(max_stmts);
    (0..k)
        .map(|_| match t.pick(6) {
            0 => E::Output(boxed(E::Assign(NAMES[t.pick(NAMES.len())].into(), boxed(syntactic(t, depth))))),
            1 => E::Output(boxed(E::Id(NAMES[t.pick(NAMES.len())].into()))),
            2 | 3 => E::Assign(NAMES[t.pick(NAMES.len())].into(), boxed(syntactic(t, depth))),
            _ => syntactic(t, depth),
        })
        .collect()
}

/// all ordered pairs (2 shapes) and triples (5 shapes) of the binary operators, every
/// prefix / postfix / binary combination, compound nodes as operands; atoms a, b, c, d, x, i
pub fn operator_shapes() -> Vec<E> {
    let (a, b, c, d) = (id("a"), id("b"), id("c"), id("d"));
    let mut v = Vec::new();
    for &o1 in &ALL_OPS {
        for &o2 in &ALL_OPS {
            v.push(bin(o2, bin(o1, a.clone(), b.clone()), c.clone()));
            v.push(bin(o1, a.clone(), bin(o2, b.clone(), c.clone())));
        }
    }
    for &o1 in &ALL_OPS {
        for &o2 in &ALL_OPS {
            for &o3 in &ALL_OPS {
                let (x, y, z, w) = (a.clone(), b.clone(), c.clone(), d.clone());
                v.push(bin(o3, bin(o2, bin(o1, x.clone(), y.clone()), z.clone()), w.clone()));
                v.push(bin(o3, bin(o1, x.clone(), bin(o2, y.clone(), z.clone())), w.clone()));
                v.push(bin(o2, bin(o1, x.clone(), y.clone()), bin(o3, z.clone(), w.clone())));
                v.push(bin(o1, x.clone(), bin(o3, bin(o2, y.clone(), z.clone()), w.clone())));
                v.push(bin(o1, x, bin(o2, y, bin(o3, z, w))));
            }
        }
    }
    // prefix / postfix / binary combinations
    let prefixes: Vec<Box<dyn Fn(E) -> E>> = vec![
        Box::new(|e| E::Neg(Box::new(e))),
        Box::new(|e| E::Not(Box::new(e), false)),
        Box::new(|e| E::Not(Box::new(e), true)),
    ];
    let postfixes: Vec<Box<dyn Fn(E) -> E>> = vec![
        Box::new(|e| E::Fact(Box::new(e))),
        Box::new(|e| E::Call(Box::new(e), vec![id("x")])),
        Box::new(|e| E::Call(Box::new(e), vec![])),
        Box::new(|e| E::Index(Box::new(e), Box::new(id("i")))),
        Box::new(|e| E::Field(Box::new(e), "k".into())),
    ];
    for &op in &ALL_OPS {
        for p in &prefixes {
            v.push(p(bin(op, a.clone(), b.clone())));
            v.push(bin(op, p(a.clone()), b.clone()));
            v.push(bin(op, a.clone(), p(b.clone())));
        }
        for q in &postfixes {
            v.push(q(bin(op, a.clone(), b.clone())));
            v.push(bin(op, q(a.clone()), b.clone()));
            v.push(bin(op, a.clone(), q(b.clone())));
        }
    }
    for p in &prefixes {
        for q in &postfixes {
            v.push(p(q(a.clone())));
            v.push(q(p(a.clone())));
        }
        for p2 in &prefixes {
            v.push(p(p2(a.clone())));
        }
    }
    for q in &postfixes {
        for q2 in &postfixes {
            v.push(q(q2(a.clone())));
        }
    }
    // compound non-operator nodes as operands
    let compounds = vec![
        E::Lambda(vec![P::Req("x".into())], Box::new(bin(Op::Add, id("x"), n(1.0)))),
        E::If(Box::new(a.clone()), Box::new(b.clone()), Box::new(c.clone())),
        E::Assign("t".into(), Box::new(bin(Op::Add, a.clone(), b.clone()))),
        E::Do(vec![], Box::new(a.clone())),
    ];
    for cmp in &compounds {
        for &op in &ALL_OPS {
            v.push(bin(op, cmp.clone(), b.clone()));
            v.push(bin(op, a.clone(), cmp.clone()));
        }
        for p in &prefixes {
            v.push(p(cmp.clone()));
        }
        for q in &postfixes {
            v.push(q(cmp.clone()));
        }
        v.push(E::Lambda(vec![P::Req("x".into())], Box::new(cmp.clone())));
        v.push(E::If(Box::new(cmp.clone()), Box::new(cmp.clone()), Box::new(cmp.clone())));
    }
    v
}

