//! Expression-tree generator (filled in with C10 / C07).
