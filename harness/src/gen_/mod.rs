//! Shared proptest strategies (all by construction, shrinking toward the first alternative).

pub mod expr;
pub mod typed;

use crate::model::{F, MV};
use proptest::prelude::*;

pub const BOUNDARY_F64: &[f64] = &[
    // around the 64-bit integer limits (each value is also used negated)
    9223372036854775808.0,
    9223372036854777856.0,
    9223372036854774784.0,
    9.5e18,
    9999999999999998976.0,
    1e19,
    18446744073709551616.0,
    18446744073709549568.0,
    1.2e19,
    1e16,
    12345678901234567890.0,
    0.0,
    1.0,
    -1.0,
    2.0,
    0.5,
    -0.5,
    -0.0,
    1.5,
    -1.5,
    7.0,
    10.0,
    100.0,
    0.1,
    0.2,
    0.3,
    1e-4,
    9.999e-5,
    1e15,
    999999999999999.9,
    1e16,
    1e21,
    1e22,
    1e30,
    -1e30,
    1e-7,
    1e-300,
    1e300,
    9007199254740991.0,
    9007199254740992.0,
    9007199254740993.0,
    9007199254740994.0,
    4294967296.0,
    2147483648.0,
    -2147483649.0,
    9223372036854775807.0,
    18446744073709551615.0,
    f64::MAX,
    f64::MIN,
    f64::MIN_POSITIVE,
    5e-324,
    2.2250738585072009e-308,
    f64::EPSILON,
    123456.789,
    0.000123456789012345678,
    1.7976931348623157e308,
    4.35,
    2.675,
    1.005,
    0.30000000000000004,
];

/// finite doubles: boundary pool, small integers, "nice" decimals, uniform bit patterns
pub fn finite_f64() -> BoxedStrategy<f64> {
    prop_oneof![
        3 => (0..BOUNDARY_F64.len()).prop_map(|i| BOUNDARY_F64[i]),
        2 => (-20i32..20).prop_map(|i| i as f64),
        2 => (-1_000_000i64..1_000_000, 0u32..7).prop_map(|(m, e)| m as f64 / 10f64.powi(e as i32)),
        1 => (any::<i64>()).prop_map(|i| i as f64),
        4 => any::<u64>().prop_map(f64::from_bits).prop_map(|x| if x.is_finite() { x } else { 1.25 }),
        2 => (1u64..(1 << 53), -340i32..300).prop_map(|(m, e)| {
            let x = m as f64 * 10f64.powi(e);
            if x.is_finite() { x } else { m as f64 }
        }),
        1 => (any::<u64>(), 0u64..3).prop_map(|(b, d)| {
            // neighbours of powers of two and ten
            let k = (b % 600) as i32 - 300;
            let base = if b & 1 == 0 { 10f64.powi(k) } else { 2f64.powi((b % 2000) as i32 - 1000) };
            let bits = base.to_bits();
            let x = f64::from_bits(match d { 0 => bits, 1 => bits.wrapping_add(1), _ => bits.wrapping_sub(1) });
            if x.is_finite() && x != 0.0 { x } else { 1.0 }
        }),
    ]
    .boxed()
}

/// doubles including NaN and the infinities
pub fn any_f64() -> BoxedStrategy<f64> {
    prop_oneof![
        8 => finite_f64(),
        1 => Just(f64::NAN),
        1 => Just(f64::INFINITY),
        1 => Just(f64::NEG_INFINITY),
    ]
    .boxed()
}

/// small "ordinary" numbers for programs that should evaluate
pub fn small_f64() -> BoxedStrategy<f64> {
    prop_oneof![
        4 => (-9i32..10).prop_map(|i| i as f64),
        1 => (-1000i32..1000).prop_map(|i| i as f64 / 8.0),
        1 => Just(0.5),
    ]
    .boxed()
}

pub const STRING_POOL: &[&str] = &[
    // text that looks like JSON / ends in a backslash / carries blanks before a line break
    "C:\\tmp\\",
    "ends with backslash\\",
    "[1,2,]",
    "{\"a\":1,}",
    ", ]",
    ",}",
    "trailing blank \nnext line",
    "tab\t\nnext",
    "",
    "a",
    "abc",
    "hello world",
    "é",
    "héllo",
    "日本語",
    "😀",
    "a😀b",
    "e\u{301}",
    "\"",
    "'",
    "it's",
    "say \"hi\"",
    "both ' and \"",
    "\\",
    "a\\b",
    "\\n",
    "line1\nline2",
    "tab\there",
    "\r\n",
    " ",
    "  padded  ",
    "// not a comment",
    "1",
    "12.5",
    "-3",
    "1e3",
    "0x10",
    "NaN",
    "inf",
    "true",
    "null",
    "meters",
    "km",
    "{}",
    "{0} and {1}",
    "a,b,c",
    ",",
    "ß",
    "İ",
    "ǆ",
    "\u{0}",
    "\u{7f}",
    "\u{feff}",
    "\u{10ffff}",
    "__blots_function",
];

pub fn any_char() -> BoxedStrategy<char> {
    prop_oneof![
        6 => (0x20u8..0x7f).prop_map(|b| b as char),
        2 => prop::sample::select(vec!['é', 'ß', '日', '😀', '\u{301}', '"', '\'', '\\', '\n', '\t', '/', '{', '}', ' ']),
        1 => any::<char>(),
    ]
    .boxed()
}

pub fn any_string() -> BoxedStrategy<String> {
    prop_oneof![
        3 => (0..STRING_POOL.len()).prop_map(|i| STRING_POOL[i].to_string()),
        2 => prop::collection::vec(any_char(), 0..12).prop_map(|v| v.into_iter().collect()),
        1 => "[a-z]{1,6}",
    ]
    .boxed()
}

/// strings that are safe inside generated program text everywhere (no quotes, no newline)
pub fn plain_string() -> BoxedStrategy<String> {
    prop_oneof![
        2 => prop::sample::select(vec!["", "a", "abc", "x y", "héllo", "日本", "k1", "b"]).prop_map(|s| s.to_string()),
        1 => "[a-z]{0,5}",
    ]
    .boxed()
}

pub const KEY_POOL: &[&str] = &[
    "a", "b", "c", "x", "y", "key", "k1", "_u", "if", "then", "true", "null", "sum", "map", "", "1", "0",
    "-1", "1.5", "a b", "a-b", "é", "\"q\"", "it's", "both'\"", "\\", "line\nbreak", "Ａ", "e\u{301}", "é",
    "inputs", "constants", "trueish", "𝒳",
    // keys that serialisation libraries reserve for their own private encodings
    "$serde_json::private::Number", "$serde_json::private::RawValue", "$__toml_private_datetime",
    "k,]", "key\\",
    // identifiers padded with blanks (distinct from the plain names)
    " a", "b ", "\tkey", "x\n", " ", "\n",
];

pub fn any_key() -> BoxedStrategy<String> {
    prop_oneof![
        3 => (0..KEY_POOL.len()).prop_map(|i| KEY_POOL[i].to_string()),
        1 => "[a-z_][a-z0-9_]{0,5}",
        1 => prop::collection::vec(any_char(), 0..6).prop_map(|v| v.into_iter().collect()),
    ]
    .boxed()
}

fn dedup_keys(mut v: Vec<(String, MV)>) -> Vec<(String, MV)> {
    let mut seen = std::collections::HashSet::new();
    v.retain(|(k, _)| k != "__blots_function" && seen.insert(k.clone()));
    v
}

/// recursive data values; `num` chooses the number strategy, `strs` the string strategy
pub fn mv_with(
    num: BoxedStrategy<f64>,
    strs: BoxedStrategy<String>,
    keys: BoxedStrategy<String>,
    depth: u32,
    width: usize,
) -> BoxedStrategy<MV> {
    let leaf = prop_oneof![
        4 => num.prop_map(|x| MV::Num(F(x))),
        3 => strs.prop_map(MV::Str),
        1 => any::<bool>().prop_map(MV::Bool),
        1 => Just(MV::Null),
    ];
    leaf.prop_recursive(depth, 64, width as u32, move |inner| {
        prop_oneof![
            3 => prop::collection::vec(inner.clone(), 0..width).prop_map(MV::List),
            2 => prop::collection::vec((keys.clone(), inner), 0..width).prop_map(|v| MV::Rec(dedup_keys(v))),
        ]
    })
    .boxed()
}

/// JSON-representable data (finite numbers)
pub fn data_mv(depth: u32) -> BoxedStrategy<MV> {
    mv_with(finite_f64(), any_string(), any_key(), depth, 5)
}

/// data including NaN / infinities
pub fn wild_mv(depth: u32) -> BoxedStrategy<MV> {
    mv_with(any_f64(), any_string(), any_key(), depth, 5)
}

/// small tame data for programs
pub fn tame_mv(depth: u32) -> BoxedStrategy<MV> {
    mv_with(
        small_f64(),
        plain_string(),
        prop::sample::select(vec!["a", "b", "c", "k"]).prop_map(|s| s.to_string()).boxed(),
        depth,
        4,
    )
}
